import Acv.Driver.Decode
import Acv.Model.ProfileParser
/-! `parse`: the profile parser model on one YAML node tree; the output is the JSON of
`pkg/verifhook/dump_profile.go` (trusted glue: decoding of the tree and encoding of the dump) -/
namespace Acv.Driver
open Lean (Json)
open Acv.PP

partial def decY (j : Json) : R Y := do
  match ← fldStr j "k" with
  | "scalar" => return .scalar (← fldStr j "tag") (← fldStr j "v")
  | "seq" => return .seq (← (← fldArr j "items").mapM decY)
  | "map" =>
    let es ← (← fldArr j "entries").mapM fun e => do
      let a ← arr e
      return (← decY a[0]!, ← decY a[1]!)
    return .map es
  | _ => return .other (match fldStr j "v" with | .ok s => s | .error _ => "")

def jint (i : Int) : Json := Json.num (Lean.JsonNumber.fromInt i)

def encVar (v : Var) : Json :=
  Json.mkObj ([("name", Json.str v.name), ("quant", Json.str (match v.quant with | .all => "forall" | .ex => "exists"))] ++
    (match v.card with
     | some c => [("card", Json.mkObj [("op", Json.str c.op.sym), ("value", jint c.value)])]
     | none => []))

/-- `none` = the dump needs a formatted float -/
partial def encRule : PRule → Option Json
  | .and neg body => do
    return Json.mkObj [("t", "and"), ("neg", Json.bool neg), ("body", Json.arr (← body.mapM encRule).toArray)]
  | .or neg body => do
    return Json.mkObj [("t", "or"), ("neg", Json.bool neg), ("body", Json.arr (← body.mapM encRule).toArray)]
  | .cond neg body => do
    return Json.mkObj [("t", "cond"), ("neg", Json.bool neg), ("body", Json.arr (← body.mapM encRule).toArray)]
  | .nested neg parent child path value => do
    return Json.mkObj [("t", "nested"), ("neg", Json.bool neg), ("parent", Json.str parent), ("child", encVar child),
      ("path", Json.str path.dump), ("source", Json.str path.source), ("value", ← encRule value)]
  | .top name level cls var neg me mv value => do
    return Json.mkObj [("t", "top"), ("name", Json.str name), ("level", Json.str level), ("class", Json.str cls),
      ("var", encVar var), ("neg", Json.bool neg), ("msgExpr", Json.str me),
      ("msgVars", Json.arr (mv.map Json.str).toArray), ("value", ← encRule value)]
  | .atom neg var path a => do
    let base (t name : String) : List (String × Json) :=
      [("t", Json.str t), ("neg", Json.bool neg), ("name", Json.str name), ("var", Json.str var),
       ("path", Json.str path.dump), ("source", Json.str path.source)]
    match a with
    | .count name q t arg => return Json.mkObj (base "count" name ++ [("arg", jint arg), ("qualifier", Json.num q), ("target", Json.num t)])
    | .set name crit args => return Json.mkObj (base "set" name ++ [("args", Json.arr (args.map Json.str).toArray), ("criteria", Json.num crit)])
    | .pattern arg => return Json.mkObj (base "pattern" "pattern" ++ [("arg", Json.str arg)])
    | .unique arg => return Json.mkObj (base "unique" "uniqueValues" ++ [("arg", Json.bool arg)])
    | .propcmp name op other => return Json.mkObj (base "propcmp" name ++
        [("op", Json.str op.sym), ("other", Json.str other.dump), ("otherSource", Json.str other.source)])
    | .numeric name op (.int i) => return Json.mkObj (base "numeric" name ++ [("op", Json.str op.sym), ("arg", Json.str (toString i))])
    | .numeric _ _ (.float _) => none
    | .datatype arg => return Json.mkObj (base "datatype" "datatype" ++ [("arg", Json.str arg)])
    | .rego message code => return Json.mkObj (base "rego" "rego" ++ [("message", Json.str message), ("code", Json.str code)])

def encProfile (p : Profile) : Option Json := do
  let v ← p.violation.mapM encRule
  let w ← p.warning.mapM encRule
  let i ← p.info.mapM encRule
  return Json.mkObj ([("name", Json.str p.name),
    ("prefixes", Json.mkObj (p.prefixes.map (fun kv => (kv.1, Json.str kv.2)))),
    ("violation", Json.arr v.toArray), ("warning", Json.arr w.toArray), ("info", Json.arr i.toArray)] ++
    (match p.customRego with | some s => [("customRego", Json.str s)] | none => []))

def outcome (s : String) : Json := Json.mkObj [("outcome", Json.str s)]

/-- parse: `tree = null` means that `yaml.v3` rejected the text or the document is empty -/
def opParse (j : Json) : R Json := do
  if !has j "tree" then return outcome "error"
  let y ← decY (← fld j "tree")
  match parseProfile y with
  | .error e => return outcome (if e == unsupportedFloat then "unsupported" else "error")
  | .ok p =>
    match encProfile p with
    | some d => return Json.mkObj [("outcome", Json.str "ok"), ("dump", d)]
    | none => return outcome "unsupported"

end Acv.Driver
