package main

import (
	"strings"
	"encoding/json"
	"fmt"
	"io"
	"math/big"
)

const SM = "http://a.ml/vocabularies/document-source-maps#"
const DOC = "http://a.ml/vocabularies/document#"

type C14Entry struct {
	Element string    `json:"element"`
	Nums    [4]string `json:"nums"` // decimal strings: any magnitude
	Value   string    `json:"value"`
}

type C14Case struct {
	Op         string     `json:"op"`
	Id         int        `json:"id"`
	NodeIds    []string   `json:"nodeIds"`
	Targets    []string   `json:"targets"`
	Root       *string    `json:"root"`
	Additional [][]any    `json:"additional"` // [location, [element ids]]
	Entries    []C14Entry `json:"entries"`
	// results are expected about these nodes (default: the targets); Kids maps a reported node to the node its embedded-Rego
	// trace is about ($traceNode); kids are listed in Targets too, so that the model computes their locations
	Reported []string          `json:"reported,omitempty"`
	Kids     map[string]string `json:"kids,omitempty"`
	Nested   bool              `json:"nested,omitempty"` // the kids are reached by a nested constraint: sub-results are about them
	Profile  string            `json:"profile"`
	Data       string     `json:"data"`
}

func (g *G) bigNum() string {
	switch g.n(5) {
	case 0:
		return "0"
	case 1:
		return fmt.Sprint(g.n(10))
	case 2:
		return fmt.Sprint(g.n(100000))
	case 3:
		// up to 30 digits
		n := new(big.Int)
		n.SetString("1", 10)
		d := 10 + g.n(21)
		for i := 0; i < d; i++ {
			n.Mul(n, big.NewInt(10))
			n.Add(n, big.NewInt(int64(g.n(10))))
		}
		return n.String()
	default:
		return fmt.Sprint(9007199254740992 + int64(g.n(5))) // around 2^53
	}
}

func genC14(g *G, n int, out io.Writer) {
	enc := json.NewEncoder(out)
	for i := 0; i < n; i++ {
		c := C14Case{Op: "c14", Id: i}
		// one case in five names its nodes hierarchically: every id extends the previous one by a path segment or a fragment, a
		// linked node's id extends its parent's. Which file a node was declared in is said by the listings, never by what its id looks like
		hier := i%5 == 2
		nodeId := func(k int) string {
			if !hier {
				return nodeId(k)
			}
			id := NodeNS + "root"
			for j := 1; j <= k%1000; j++ {
				id += []string{"/examples/e", "/items/", "#/frag", "/x"}[j%4] + fmt.Sprint(j)
			}
			if k >= 1000 {
				id += "/kid"
			}
			return id
		}
		nT := 1 + g.n(6)
		var nodes []map[string]any
		for k := 0; k < nT; k++ {
			id := nodeId(k)
			c.Targets = append(c.Targets, id)
			nodes = append(nodes, map[string]any{"@id": id, "@type": []string{NS + "T"}, NS + "p0": "v"})
		}
		traced := i%3 == 1
		if traced {
			// every target links to a node of its own (with a lexical entry of its own, or none, possibly in another file):
			// an embedded-Rego constraint designates that node as the one its trace is about
			c.Reported = append([]string{}, c.Targets...)
			c.Kids = map[string]string{}
			for k := 0; k < nT; k++ {
				kid := nodeId(1000 + k)
				c.Kids[nodeId(k)] = kid
				c.Targets = append(c.Targets, kid)
				nodes[k][NS+"kid"] = map[string]any{"@id": kid}
				kn := map[string]any{"@id": kid, "@type": []string{NS + "K"}, NS + "q": k}
				if i%6 == 4 {
					delete(kn, "@type") // a node without a class (reached through a link only)
				}
				nodes = append(nodes, kn)
			}
		}
		withMaps := g.coin(0.85)
		// the unit's source information: with a root location, without one, or no source-information node at all
		// (lexical entries then still give line/column, with an empty uri unless an additional location lists the node)
		rootMode := g.n(6) // 0: info node without rootLocation, 1: no info node, else: ordinary
		if withMaps {
			root := g.pick([]string{"file:///root.raml", "file:///root.raml", "file:///work/my project/api.raml", "file:///apis/bibliothèque/api.raml", "FILE:///Root.RAML", "file:///x.raml#", "C:\\apis\\orders.raml", "api.raml", ""})
			if rootMode > 1 {
				c.Root = &root
			}
			// lexical entries: node-level, property-level only, none
			var lexLinks []any
			for k, id := range c.Targets {
				mode := g.n(4)
				if mode == 3 {
					continue // no entry
				}
				el := id
				if mode == 2 {
					el = NS + "p0" // property-level entry only
				}
				e := C14Entry{Element: el, Nums: [4]string{g.bigNum(), g.bigNum(), g.bigNum(), g.bigNum()}}
				e.Value = fmt.Sprintf("[(%s,%s)-(%s,%s)]", e.Nums[0], e.Nums[1], e.Nums[2], e.Nums[3])
				c.Entries = append(c.Entries, e)
				lid := fmt.Sprintf("%s%d/source-map/lexical/element_%d", NodeNS, k, len(c.Entries))
				lexLinks = append(lexLinks, map[string]any{"@id": lid})
				nodes = append(nodes, map[string]any{"@id": lid, SM + "element": e.Element, SM + "value": e.Value})
				if mode == 1 && g.coin(0.3) {
					// plus a property-level entry for the same node's property
					e2 := C14Entry{Element: NS + "p0", Nums: [4]string{"1", "1", "1", "2"}, Value: "[(1,1)-(1,2)]"}
					c.Entries = append(c.Entries, e2)
					lid2 := lid + "_p"
					lexLinks = append(lexLinks, map[string]any{"@id": lid2})
					nodes = append(nodes, map[string]any{"@id": lid2, SM + "element": e2.Element, SM + "value": e2.Value})
				}
			}
			if len(lexLinks) > 0 {
				// one or two SourceMap nodes
				half := len(lexLinks)
				if g.coin(0.4) && len(lexLinks) > 1 {
					half = 1 + g.n(len(lexLinks)-1)
				}
				nodes = append(nodes, map[string]any{"@id": NodeNS + "sm/a", "@type": []string{SM + "SourceMap"}, SM + "lexical": lexLinks[:half]})
				if half < len(lexLinks) {
					nodes = append(nodes, map[string]any{"@id": NodeNS + "sm/b", "@type": []string{SM + "SourceMap"}, SM + "lexical": lexLinks[half:]})
				}
			}
			info := map[string]any{"@id": NodeNS + "BaseUnitSourceInformation", "@type": []string{DOC + "BaseUnitSourceInformation"}, DOC + "rootLocation": root}
			if rootMode <= 1 {
				delete(info, DOC+"rootLocation")
			}
			nLoc := g.n(4)
			if rootMode == 1 {
				nLoc = 0
			}
			var locLinks []any
			for l := 0; l < nLoc; l++ {
				loc := fmt.Sprintf(g.pick([]string{"file:///lib%d.raml", "file:///libs/my lib %d.raml", "file:///libs/bibliothèque%d.raml", "HTTP://Example.org/lib%d.raml#"}), l)
				var els []string
				var elLinks []any
				for _, id := range c.Targets {
					if g.coin(0.3) {
						els = append(els, id)
						elLinks = append(elLinks, map[string]any{"@id": id})
					}
				}
				if len(els) == 0 {
					continue
				}
				lid := fmt.Sprintf("%sloc/%d", NodeNS, l)
				locLinks = append(locLinks, map[string]any{"@id": lid})
				nodes = append(nodes, map[string]any{"@id": lid, DOC + "location": loc, DOC + "elements": elLinks})
				c.Additional = append(c.Additional, []any{loc, els})
			}
			if len(locLinks) > 0 {
				info[DOC+"additionalLocations"] = locLinks
			}
			if rootMode != 1 {
				nodes = append(nodes, info)
			}
		}
		for _, nd := range nodes {
			c.NodeIds = append(c.NodeIds, nd["@id"].(string))
		}
		b, _ := json.Marshal(nodes)
		c.Data = string(b)
		// every T node fails (ex.zz is absent) -> one result, one trace per target
		c.Profile = "profile: C14\nprefixes:\n  ex: " + NS + "\nviolation:\n  - v\nvalidations:\n  v:\n    targetClass: ex.T\n    message: m\n    propertyConstraints:\n      ex.zz:\n        minCount: 1\n"
		if !traced {
			// the failing constraint varies: every kind builds its trace entry in code of its own
			switch g.n(6) {
			case 1:
				c.Profile = strings.Replace(c.Profile, "      ex.zz:\n        minCount: 1\n", "      ex.p0:\n        in: [zzz]\n", 1)
			case 2:
				c.Profile = strings.Replace(c.Profile, "      ex.zz:\n        minCount: 1\n", "      ex.p0:\n        pattern: ^zzz$\n", 1)
			case 3:
				c.Profile = strings.Replace(c.Profile, "      ex.zz:\n        minCount: 1\n", "      ex.p0:\n        maxLength: 0\n", 1)
			case 4:
				c.Profile = strings.Replace(c.Profile, "      ex.zz:\n        minCount: 1\n", "      ex.p0 | ex.p0:\n        uniqueValues: true\n", 1)
			}
		}
		if traced && i%6 >= 3 {
			// a nested constraint: the sub-results are about the linked nodes (which may have no class)
			c.Profile = "profile: C14\nprefixes:\n  ex: " + NS + "\nviolation:\n  - v\nvalidations:\n  v:\n    targetClass: ex.T\n    message: m\n    propertyConstraints:\n      ex.kid:\n        nested:\n          propertyConstraints:\n            ex.zz:\n              minCount: 1\n"
			c.Nested = true
		} else if traced {
			decl := "      - propertyConstraints:\n          ex.p0:\n            pattern: ^zzz$\n"
			rego := "      - rego: |\n          kid := find with data.link as $node[\"" + NS + "kid\"]\n          " + traceBinding(i+i/6) + "\n          $result = false\n"
			body := "    or:\n" + decl + rego
			if g.coin(0.5) {
				body = "    or:\n" + rego + decl
			}
			if g.coin(0.3) {
				// the same two constraints in one failure branch through a conditional: if (pattern holds is false ...) -> not(A) or B
				body = "    if:\n      not:\n        propertyConstraints:\n          ex.p0:\n            pattern: ^zzz$\n    then:\n      rego: |\n        kid := find with data.link as $node[\"" + NS + "kid\"]\n        " + traceBinding(i+i/6) + "\n        $result = false\n"
			}
			c.Profile = "profile: C14\nprefixes:\n  ex: " + NS + "\nviolation:\n  - v\nvalidations:\n  v:\n    targetClass: ex.T\n    message: m\n" + body
		}
		if c.Additional == nil {
			c.Additional = [][]any{}
		}
		if c.Entries == nil {
			c.Entries = []C14Entry{}
		}
		enc.Encode(c)
	}
}

// withLexical appends source-map nodes giving a lexical entry to a random subset of the given node ids
func withLexical(g *G, data string, ids []string, frac float64) string {
	var nodes []map[string]any
	if err := json.Unmarshal([]byte(data), &nodes); err != nil {
		return data
	}
	var links []any
	for k, id := range ids {
		if !g.coin(frac) {
			continue
		}
		lid := fmt.Sprintf("%slex/%d", NodeNS, k)
		links = append(links, map[string]any{"@id": lid})
		nodes = append(nodes, map[string]any{"@id": lid, SM + "element": id, SM + "value": fmt.Sprintf("[(%d,%d)-(%d,%d)]", k+1, g.n(40), k+2+g.n(5), g.n(40))})
	}
	if len(links) == 0 {
		return data
	}
	nodes = append(nodes, map[string]any{"@id": NodeNS + "lexmap", "@type": []string{SM + "SourceMap"}, SM + "lexical": links})
	nodes = append(nodes, map[string]any{"@id": NodeNS + "srcinfo", "@type": []string{DOC + "BaseUnitSourceInformation"}, DOC + "rootLocation": "file:///root.raml"})
	b, _ := json.Marshal(nodes)
	return string(b)
}

// traceBinding: the ways embedded Rego can bind the node its trace is about - Rego binds by unification, on either side of `=`,
// through `:=`, through membership
func traceBinding(i int) string {
	return []string{"$traceNode = kid", "kid = $traceNode", "$traceNode := kid", "[$traceNode, _] = [kid, 1]", "some $traceNode in [kid]", "[kid][_] = $traceNode"}[i%6]
}
