package main

// Generator stream `ms`: event lists for the library's own consumer of the progress events
// (pkg/milestones.GenerateMilestonesFromEvents). An event is [type, time]: the numeric EventType and an integer number of
// nanoseconds relative to a fixed instant (msEpoch in impl_ms.go).

import (
	"encoding/json"
	"io"
)

type MsCase struct {
	Op     string     `json:"op"`
	Id     int        `json:"id"`
	Kind   string     `json:"kind"`
	Times  string     `json:"times"`
	Cap    int        `json:"cap"` // capacity of the milestone channel (0: unbuffered, the consumer runs concurrently in any case)
	Events [][2]int64 `json:"events"`
}

// the documented stage orders: validation from profile text, stand-alone compilation, validation with a compiled profile
var msStageOrders = [][]int64{
	{0, 1, 6, 7, 8, 9, 2, 3, 4, 5, 10, 11, 12, 13},
	{0, 1, 6, 7, 8, 9},
	{2, 3, 4, 5, 10, 11, 12, 13},
}

var msTimeStyles = []string{"increasing", "ties", "equal", "decreasing", "random", "big"}

var msUnknownTypes = []int64{14, 15, 16, 99, 1000, -1, -2, 1 << 31, 255}

// msTimes gives k time stamps in the given style
func msTimes(g *G, style string, k int) []int64 {
	ts := make([]int64, k)
	switch style {
	case "increasing":
		t := int64(g.n(1000000))
		for i := range ts {
			t += 1 + int64(g.r.Int63n(2000000000))
			ts[i] = t
		}
	case "ties": // non-decreasing, many equal neighbours (a coarse clock)
		t := int64(g.n(1000))
		for i := range ts {
			if g.coin(0.4) {
				t += int64(g.r.Int63n(1000000))
			}
			ts[i] = t
		}
	case "equal":
		t := g.r.Int63n(1000000000000) - 500000000000
		for i := range ts {
			ts[i] = t
		}
	case "decreasing": // a clock that goes back
		t := int64(1000000000000)
		for i := range ts {
			t -= 1 + int64(g.r.Int63n(1000000000))
			ts[i] = t
		}
	case "random":
		for i := range ts {
			ts[i] = g.r.Int63n(2000000000000000) - 1000000000000000
		}
	default: // "big": decades away from the fixed instant in both directions (differences stay below Go's 292-year Duration)
		for i := range ts {
			ts[i] = g.r.Int63n(4000000000000000000) - 2000000000000000000
		}
	}
	return ts
}

func msPairs(g *G, k int, open bool) []int64 {
	var tys []int64
	for i := 0; i < k; i++ {
		s := int64(g.n(7))
		tys = append(tys, 2*s, 2*s+1)
	}
	if open {
		tys = append(tys, 2*int64(g.n(7)))
	}
	return tys
}

func msMutate(g *G, tys []int64) []int64 {
	out := append([]int64(nil), tys...)
	for m := 1 + g.n(3); m > 0; m-- {
		switch g.n(8) {
		case 0: // swap two
			if len(out) > 1 {
				i, j := g.n(len(out)), g.n(len(out))
				out[i], out[j] = out[j], out[i]
			}
		case 1: // duplicate one (a repeated Start or Done)
			if len(out) > 0 {
				i := g.n(len(out))
				at := g.n(len(out) + 1)
				out = append(out[:at], append([]int64{out[i]}, out[at:]...)...)
			}
		case 2: // omit one
			if len(out) > 0 {
				i := g.n(len(out))
				out = append(out[:i], out[i+1:]...)
			}
		case 3: // an event type the library does not know
			at := g.n(len(out) + 1)
			out = append(out[:at], append([]int64{msUnknownTypes[g.n(len(msUnknownTypes))]}, out[at:]...)...)
		case 4: // Done before its Start
			for i := 0; i+1 < len(out); i++ {
				if out[i]%2 == 0 && out[i+1] == out[i]+1 && g.coin(0.5) {
					out[i], out[i+1] = out[i+1], out[i]
					break
				}
			}
		case 5: // full shuffle
			g.r.Shuffle(len(out), func(i, j int) { out[i], out[j] = out[j], out[i] })
		case 6: // a Done of another stage in place of one
			if len(out) > 0 {
				i := g.n(len(out))
				out[i] = int64(2*g.n(7) + 1)
			}
		default: // a Start repeated right before its Done
			for i := 0; i+1 < len(out); i++ {
				if out[i]%2 == 0 && g.coin(0.4) {
					out = append(out[:i+1], append([]int64{out[i]}, out[i+1:]...)...)
					break
				}
			}
		}
	}
	return out
}

func genMs(g *G, n int, out io.Writer) {
	enc := json.NewEncoder(out)
	id := 0
	emit := func(kind, style string, tys []int64) bool {
		if id >= n {
			return false
		}
		ts := msTimes(g, style, len(tys))
		evs := make([][2]int64, len(tys))
		for i := range tys {
			evs[i] = [2]int64{tys[i], ts[i]}
		}
		cp := len(tys) + 1
		if id%3 == 1 {
			cp = 0
		} else if id%3 == 2 {
			cp = 1
		}
		enc.Encode(MsCase{Op: "ms", Id: id, Kind: kind, Times: style, Cap: cp, Events: evs})
		id++
		return true
	}
	// (i) what the pipeline sends, for every outcome: every prefix of every stage order
	k := 0
	for _, order := range msStageOrders {
		for l := 0; l <= len(order); l++ {
			if !emit("prefix", msTimeStyles[k%2], order[:l]) { // increasing / ties: what a real clock gives
				return
			}
			k++
		}
	}
	for id < n {
		style := msTimeStyles[g.n(len(msTimeStyles))]
		switch r := g.n(20); {
		case r < 3:
			order := msStageOrders[g.n(3)]
			emit("prefix", style, order[:g.n(len(order)+1)])
		case r < 7: // well-bracketed, stages in any order and repeated
			emit("pairs", style, msPairs(g, g.n(10), g.coin(0.4)))
		case r < 13: // (ii) permutations, duplications, omissions, unknown types, Done before Start, repeated Start
			var base []int64
			if g.coin(0.5) {
				order := msStageOrders[g.n(3)]
				base = order[:g.n(len(order)+1)]
			} else {
				base = msPairs(g, g.n(8), g.coin(0.4))
			}
			emit("mutated", style, msMutate(g, base))
		case r < 17: // anything
			l := g.n(25)
			tys := make([]int64, l)
			for i := range tys {
				if g.coin(0.1) {
					tys[i] = msUnknownTypes[g.n(len(msUnknownTypes))]
				} else {
					tys[i] = int64(g.n(14))
				}
			}
			emit("random", style, tys)
		case r < 19: // (iii) long lists
			if g.coin(0.5) {
				emit("long-pairs", style, msPairs(g, 100+g.n(900), g.coin(0.5)))
			} else {
				emit("long-mutated", style, msMutate(g, msPairs(g, 100+g.n(900), g.coin(0.5))))
			}
		default:
			var tys []int64
			for rep := 1 + g.n(40); rep > 0; rep-- {
				tys = append(tys, msStageOrders[0]...)
			}
			emit("long-runs", style, tys)
		}
	}
}
