package main

import (
	"encoding/json"
	"fmt"
	"io"
	"strings"
)

type CliCase struct {
	Op     string `json:"op"`
	Id     int    `json:"id"`
	Sub    string `json:"sub"`
	Prior  string `json:"prior"`
	ToFile bool   `json:"toFile"`
	Kind   string `json:"kind"`
	// an operational failure the command line must report (non-zero exit, nothing on stdout): "no-profile-file", "no-data-file",
	// "out-dir-missing" (the output path lies in a directory that does not exist), "no-args"
	Fault string `json:"fault,omitempty"`
	// how the files are named: "" (p.yaml, d.jsonld, out.json), "dollar" (names containing $VAR / ${VAR} with VAR set in the
	// command's environment), "spaces" (blanks and non-ASCII letters).  A file name is a file name
	Names   string `json:"names,omitempty"`
	Profile string `json:"profile"`
	Data    string `json:"data"`
}

func pvText(name string) string {
	for _, pv := range profVariants {
		if pv.name == name {
			return pv.text
		}
	}
	panic("no profile variant " + name)
}

func genCli(g *G, n int, out io.Writer) {
	enc := json.NewEncoder(out)
	id := 0
	emit := func(sub, prior string, toFile bool, kind, p, d string) {
		enc.Encode(CliCase{Op: "cli", Id: id, Sub: sub, Prior: prior, ToFile: toFile, Kind: kind, Profile: p, Data: d})
		id++
	}
	maxBranches = 8
	type pd struct{ kind, p, d string }
	var inputs []pd
	inputs = append(inputs, pd{"conforming", okProfile, "[]"}, pd{"violations", okProfile, okData})
	for i := 0; i < n; i++ {
		c := genC01Graph(g, i, true)
		prof := ProfileSpec{Name: fmt.Sprintf("cli %d", i), Atoms: c.Atoms, Paths: c.Paths, Validations: c.Validations}
		inputs = append(inputs, pd{"random", prof.Render(), c.Graph.RenderFlat()})
	}
	// reports containing characters that are special to formatting functions
	for _, msg := range []string{"must be 100%", "50%d of %s %v %%", "tab\there \\ back\\slash \"q\"", "é 😀 \u2028", "$1 ${x} `tick`"} {
		p := strings.Replace(okProfile, "message: m", "message: "+yq(msg), 1)
		inputs = append(inputs, pd{"special-chars", p, okData})
	}
	// data whose JSON spelling a re-encoder could normalise away: number literals (trailing zeros, exponents, beyond 2^53, long
	// decimals, negative zero), characters encoding/json escapes on request (< > &), separators, escaped vs raw non-ASCII, key order
	for k, d := range []string{
		`[{"@id":"http://ex.org/n/0","@type":["` + NS + `T"],"` + NS + `p0":[1.50, 1e2, 9223372036854775807, 0.1000000000000000055511151231257827, -0, 1E+2, 1.0, 12345678901234567890123]}]`,
		`[{"@id":"http://ex.org/n/0","@type":["` + NS + `T"],"` + NS + `p1":["<b>&amp;</b>", "a\u2028b", "\u00e9 é", "\ud83d\ude00", "tab\there", "\/slash"],"` + NS + `p0":[{"@value":"1.50","@type":"http://www.w3.org/2001/XMLSchema#decimal"}, true, null]}]`,
		`{"@graph":[{"` + NS + `z":3.0e0,"@id":"http://ex.org/n/1","` + NS + `a":[2.50,{"@id":"http://ex.org/n/0"}]},{"@id":"http://ex.org/n/0","@type":"` + NS + `T"}]}`,
	} {
		inputs = append(inputs, pd{fmt.Sprintf("data-spelling-%d", k), okProfile, d})
	}
	// legal profiles with unusual features the library may want to talk about: names listed under a level without a definition,
	// an empty level list, a validation listed under two levels, duplicate keys, a message that is not a string
	inputs = append(inputs,
		pd{"dangling-level-name", strings.Replace(okProfile, "violation:\n", "warning:\n  - not-written-yet\nviolation:\n  - removed-rule\n", 1), okData},
		pd{"empty-level", strings.Replace(okProfile, "violation:\n", "info: []\nviolation:\n", 1), okData},
		pd{"numeric-message", strings.Replace(okProfile, "message: m", "message: 5", 1), okData},
	)
	// sizes: a data document on ONE line far longer than any line buffer, and a profile with one very long line
	{
		var nodes []string
		for k := 0; k < 1500; k++ {
			nodes = append(nodes, fmt.Sprintf(`{"@id":"http://ex.org/n/%d","@type":["%sT"],"%sq":"value number %d"}`, k, NS, NS, k))
		}
		inputs = append(inputs, pd{"long-line-data", okProfile, "[" + strings.Join(nodes, ",") + "]"})
		var vals []string
		for k := 0; k < 9000; k++ {
			vals = append(vals, fmt.Sprintf("value-%d", k))
		}
		longProfile := strings.Replace(okProfile, "        minCount: 1\n", "        minCount: 1\n        in: ["+strings.Join(vals, ", ")+"]\n", 1)
		inputs = append(inputs, pd{"long-line-profile", longProfile, okData})
		inputs = append(inputs, pd{"long-message", strings.Replace(okProfile, "message: m", "message: "+strings.Repeat("a long sentence; ", 5000), 1), okData})
	}
	bad := []pd{
		{"bad-profile", "profile: [", okData},
		{"bad-profile-prefix", profVariants[9].text, okData},
		{"bad-rego", pvText("rego-syntax"), okData},                 // the translator accepts it, the engine does not
		{"bad-rego-builtin", pvText("rego-unsafe-builtin"), okData}, // likewise (rejected by the capability check)
		{"bad-data", okProfile, "{ not json"},
		{"bad-data-jsonld", okProfile, `{"@id":"http://a","@type":5}`},
	}
	for _, in := range inputs {
		emit("validate", "", false, in.kind, in.p, in.d)
		for _, prior := range []string{"absent", "empty", "shorter", "longer", "same-size"} {
			emit("validate", prior, true, in.kind, in.p, in.d)
		}
		emit("generate", "", false, in.kind, in.p, in.d)
		emit("normalize", "", false, in.kind, in.p, in.d)
	}
	// where the report goes: a symbolic link (to nothing yet / to an existing longer file), the data file itself
	for _, in := range inputs[:2] {
		for _, prior := range []string{"symlink-dangling", "symlink-existing", "is-data-file"} {
			emit("validate", prior, true, in.kind, in.p, in.d)
		}
	}
	// how the files are called
	for _, names := range []string{"dollar", "spaces"} {
		for _, sub := range []string{"validate", "generate", "normalize", "compile"} {
			enc.Encode(CliCase{Op: "cli", Id: id, Sub: sub, Kind: "names:" + names, Names: names, Profile: okProfile, Data: okData})
			id++
		}
		enc.Encode(CliCase{Op: "cli", Id: id, Sub: "validate", ToFile: true, Prior: "longer", Kind: "names:" + names, Names: names, Profile: okProfile, Data: okData})
		id++
	}
	emit("validate", "big", true, "violations", okProfile, okData)
	emit("compile", "", false, "conforming", okProfile, "[]")
	for _, sub := range []string{"validate", "generate", "normalize", "compile"} {
		for _, fault := range []string{"no-profile-file", "no-data-file", "no-args"} {
			if (sub == "generate" || sub == "compile") && fault == "no-data-file" || sub == "normalize" && fault == "no-profile-file" {
				continue
			}
			enc.Encode(CliCase{Op: "cli", Id: id, Sub: sub, Kind: "fault:" + fault, Fault: fault, Profile: okProfile, Data: okData})
			id++
		}
	}
	enc.Encode(CliCase{Op: "cli", Id: id, Sub: "validate", ToFile: true, Prior: "absent", Kind: "fault:out-dir-missing", Fault: "out-dir-missing", Profile: okProfile, Data: okData})
	id++
	// a subcommand the tool does not have (a capital letter, a typo): nothing is validated, and the exit status says so
	for _, sub := range []string{"Validate", "validat", "check", ""} {
		enc.Encode(CliCase{Op: "cli", Id: id, Sub: "validate", Kind: "fault:unknown-subcommand:" + sub, Fault: "unknown-subcommand:" + sub, Profile: okProfile, Data: okData})
		id++
	}
	for _, in := range bad {
		emit("validate", "", false, in.kind, in.p, in.d)
		emit("validate", "longer", true, in.kind, in.p, in.d)
		emit("generate", "", false, in.kind, in.p, in.d)
		emit("normalize", "", false, in.kind, in.p, in.d)
		emit("compile", "", false, in.kind, in.p, in.d)
	}
}
