package main

import (
	"encoding/json"
	"fmt"
	"io"
	"strings"

	"gopkg.in/yaml.v3"
)

// "parse" cases: a profile text and the YAML node tree yaml.v3 gives for it; the real profile parser's
// structural dump is compared with the Lean model of the parser run on the tree.
type ParseCase struct {
	Op      string `json:"op"`
	Id      int    `json:"id"`
	Kind    string `json:"kind"`
	Profile string `json:"profile"`
	Tree    any    `json:"tree"` // null when the text is not YAML (or an empty document)
}

func yamlTree(n *yaml.Node) any {
	switch n.Kind {
	case yaml.ScalarNode:
		return map[string]any{"k": "scalar", "tag": n.Tag, "v": n.Value}
	case yaml.SequenceNode:
		items := []any{}
		for _, c := range n.Content {
			items = append(items, yamlTree(c))
		}
		return map[string]any{"k": "seq", "items": items}
	case yaml.MappingNode:
		entries := []any{}
		for i := 0; i+1 < len(n.Content); i += 2 {
			entries = append(entries, []any{yamlTree(n.Content[i]), yamlTree(n.Content[i+1])})
		}
		return map[string]any{"k": "map", "entries": entries}
	default:
		return map[string]any{"k": "other", "v": n.Value} // alias nodes: Value is the anchor name, which GetMapKeys reads
	}
}

func treeOf(text string) any {
	var doc yaml.Node
	if err := yaml.Unmarshal([]byte(text), &doc); err != nil || len(doc.Content) == 0 {
		return nil
	}
	return yamlTree(doc.Content[0])
}

func genParse(g *G, repo string, n int, out io.Writer) {
	enc := json.NewEncoder(out)
	id := 0
	emit := func(kind, text string) {
		text = strings.ToValidUTF8(text, "\uFFFD") // what the JSON transport of the case would turn it into anyway
		enc.Encode(ParseCase{Op: "parse", Id: id, Kind: kind, Profile: text, Tree: treeOf(text)})
		id++
	}
	for _, p := range hostileProfiles {
		emit("hostile", p)
	}
	for _, pv := range profVariants {
		emit("variant:"+pv.name, pv.text)
	}
	fixtures, _ := readFixtures(repo, 200)
	for _, f := range fixtures {
		emit("fixture", f)
	}
	maxBranches = 24
	for i := 0; i < n; i++ {
		customSteps = i%3 == 1
		base := genC01Graph(g, i, g.coin(0.4))
		for k := range base.Validations {
			base.Validations[k].Level = []string{"violation", "warning", "info"}[g.n(3)]
		}
		if i%4 == 1 {
			// names YAML reads as numbers, booleans, null or dates when a key is written plain: Get compares the text
			off := g.n(len(typedNames))
			for k := range base.Validations {
				if k < len(typedNames) {
					base.Validations[k].Name = typedNames[(off+k)%len(typedNames)]
				}
			}
		}
		spec := ProfileSpec{Name: fmt.Sprintf("parse %d", i), Atoms: base.Atoms, Paths: base.Paths, Validations: base.Validations}
		if g.coin(0.3) {
			spec.Dangling = map[string][]string{g.pick([]string{"violation", "warning", "info"}): {"ghost"}, g.pick([]string{"violation", "warning", "info"}): {"removed-rule", "v0"}}
		}
		var w strings.Builder
		(&ystyle{g: g, indent: 2, flowP: 0.3, comment: g.coin(0.3)}).block(&w, profileTree(g, spec, g.coin(0.7), []string{"ex", "q_1"}), 0)
		text := w.String()
		emit("generated", text)
		if g.coin(0.5) {
			emit("mutated", g.mutate(text))
		}
		// structural mutations: duplicate a key with another value, add conflicting expression keys
		if g.coin(0.5) {
			extra := g.pick([]string{"    rego: \"$result = true\"\n", "    and: []\n", "    or: 5\n", "    not: {propertyConstraints: {ex.p0: {minCount: 1}}}\n", "    if: {propertyConstraints: {ex.p0: {minCount: 1}}}\n", "    regoModule: x\n", "    then: {}\n", "    targetClass: ex.Again\n", "    message: second message {{ex.p0}}\n"})
			if i := strings.Index(text, "targetClass"); i >= 0 {
				j := strings.LastIndex(text[:i], "\n") + 1
				indent := text[j:i]
				emit("conflicting-keys", text[:j]+indent+strings.TrimLeft(extra, " ")+text[j:])
			}
		}
	}
	customSteps = false
}
