package main

import (
	"encoding/json"
	"fmt"
	"github.com/aml-org/amf-custom-validator/pkg/events"
	"github.com/aml-org/amf-custom-validator/pkg/milestones"
	"math/rand"
	"os"
	"strings"
	"sync"
	"time"

	"github.com/aml-org/amf-custom-validator/pkg"
)

// racestress: N goroutines mixing every entry point over mixed profiles and data (one compiled profile is
// shared by all goroutines); each result is compared with the result of the same call made serially.
// Built with -race, the race detector reports on stderr.
func runRaceStress(seed int64, goroutines, callsEach int) {
	g := &G{r: rand.New(rand.NewSource(seed))}
	maxBranches = 6
	type job struct{ profile, data string }
	var jobs []job
	for i := 0; i < 6; i++ {
		c := genC01Graph(g, i, true)
		prof := ProfileSpec{Name: fmt.Sprintf("race %d", i), Atoms: c.Atoms, Paths: c.Paths, Validations: c.Validations}
		jobs = append(jobs, job{prof.Render(), c.Graph.RenderFlat()})
	}
	// profiles every call must reject: at the parser (missing targetClass at the very end) and at the generator
	// (undeclared prefix in the last of many validations, so that the compilations overlap for a while)
	var many strings.Builder
	many.WriteString("profile: rejected\nprefixes:\n  ex: " + NS + "\nviolation:\n")
	for k := 0; k < 80; k++ {
		fmt.Fprintf(&many, "  - v%d\n", k)
	}
	many.WriteString("validations:\n")
	for k := 0; k < 80; k++ {
		fmt.Fprintf(&many, "  v%d:\n    targetClass: ex.T\n    message: m\n    propertyConstraints:\n      ex.p%d:\n        minCount: 1\n", k, k)
	}
	genFail := strings.Replace(many.String(), "ex.p79:", "undeclared.p79:", 1)
	parseFail := strings.Replace(many.String(), "  v79:\n    targetClass: ex.T\n", "  v79:\n", 1)
	// a big ACCEPTED profile too: its generation takes long enough to overlap with the other goroutines' compilations, and its
	// report depends on every one of the many names the generator invents
	var big strings.Builder
	big.WriteString("profile: big\nprefixes:\n  ex: " + NS + "\nviolation:\n")
	for k := 0; k < 40; k++ {
		fmt.Fprintf(&big, "  - b%d\n", k)
	}
	big.WriteString("validations:\n")
	for k := 0; k < 40; k++ {
		fmt.Fprintf(&big, "  b%d:\n    targetClass: ex.T\n    message: m\n    propertyConstraints:\n      ex.p%d / ex.p%d:\n        minCount: %d\n      ex.p%d:\n        in: [a, b, \"%d\"]\n", k, k%4, (k/4)%4, 1+k%2, (k+1)%4, k%3)
	}
	jobs = append(jobs, job{big.String(), jobs[1].data})
	// COLD jobs: profiles without a `prefixes` section (built-in aliases only), each over property names no other call of this
	// process has seen; their serial references are computed AFTER the concurrent phase, so the concurrent calls are the
	// first to touch whatever the library keeps per process
	nWarm := len(jobs)
	for k := 0; k < 8; k++ {
		var cp strings.Builder
		fmt.Fprintf(&cp, "profile: cold %d\nviolation:\n  - v\nvalidations:\n  v:\n    targetClass: apiContract.EndPoint\n    message: m\n    propertyConstraints:\n", k)
		for j := 0; j < 30; j++ {
			fmt.Fprintf(&cp, "      core.n%d_%d_%d:\n        minCount: 1\n", seed%1000, k, j)
		}
		cp.WriteString("      core.name:\n        pattern: ^[a-z]+$\n")
		jobs = append(jobs, job{cp.String(), `[{"@id":"http://ex.org/n/0","@type":["http://a.ml/vocabularies/apiContract#EndPoint"],"http://a.ml/vocabularies/core#name":"Abc"}]`})
	}
	// ... and documents whose @context is not inline but a FILE the JSON-LD processor has to load (one file per job, plus one
	// shared file pulled in through @import): whatever the processor keeps about loaded documents is first touched concurrently
	if dir, err := os.MkdirTemp("", "acvctx"); err == nil {
		defer os.RemoveAll(dir)
		shared := dir + "/shared.jsonld"
		os.WriteFile(shared, []byte(`{"@context":{"api":"http://a.ml/vocabularies/apiContract#","core":"http://a.ml/vocabularies/core#"}}`), 0644)
		for k := 0; k < 6; k++ {
			f := fmt.Sprintf("%s/ctx_%d.jsonld", dir, k)
			os.WriteFile(f, []byte(fmt.Sprintf(`{"@context":{"api":"http://a.ml/vocabularies/apiContract#","core":"http://a.ml/vocabularies/core#","t%d":"http://ex.org/t%d#"}}`, k, k)), 0644)
			ctx := `"` + f + `"`
			if k%2 == 1 {
				ctx = fmt.Sprintf(`{"@import":"%s","name%d":"core:name"}`, shared, k)
			}
			data := fmt.Sprintf(`{"@context":%s,"@id":"http://ex.org/n/%d","@type":"api:EndPoint","core:name":"Abc%d"}`, ctx, k, k)
			jobs = append(jobs, job{jobs[nWarm+k].profile, data})
		}
	}
	nCold := len(jobs) - nWarm
	jobs = append(jobs, job{genFail, jobs[0].data}, job{parseFail, jobs[0].data})
	isCold := func(i int) bool { return i >= nWarm && i < nWarm+nCold }
	serial := make([]string, len(jobs))
	for i, j := range jobs {
		if isCold(i) {
			continue
		}
		o := validate(j.profile, j.data, defaultRC())
		serial[i] = o.Kind + "\n" + o.Report
	}
	shared, err := pkg.CompileProfile(jobs[0].profile, false, nil)
	if err != nil {
		fmt.Println(`{"outcome":"setup-failed"}`)
		return
	}
	sharedSerial := make([]string, len(jobs))
	for i, j := range jobs {
		rep, err := pkg.ValidateCompiledWithConfiguration(shared, j.data, false, nil, fixedClock{}, defaultRC())
		sharedSerial[i] = fmt.Sprint(err == nil) + "\n" + rep
	}
	var wg sync.WaitGroup
	var mu sync.Mutex
	mismatches := []string{}
	calls := 0
	type pending struct {
		i         int
		got, what string
	}
	var cold []pending
	// every report that came back is kept and looked at again when everything is over: what a call returned must still be
	// what it returned (a recycled buffer behind a report would show here)
	type held struct {
		got  *string
		want string
		what string
	}
	var kept []held
	for t := 0; t < goroutines; t++ {
		wg.Add(1)
		go func(t int) {
			defer wg.Done()
			defer func() {
				if r := recover(); r != nil {
					mu.Lock()
					mismatches = append(mismatches, fmt.Sprintf("goroutine %d panicked: %v", t, r))
					mu.Unlock()
				}
			}()
			for k := 0; k < callsEach; k++ {
				i := (t + k) % len(jobs)
				if k == 0 {
					i = nWarm + t%nCold // every goroutine starts with a cold job, all at the same time
				}
				switch k % 3 {
				case 1:
					i = len(jobs) - 1 - (k/3)%2 // every goroutine compiles the same REJECTED profile at the same time
				case 2:
					i = k % (len(jobs) - 2) // every goroutine works on the same valid job at the same time
				}
				var got, want, what string
				var raw, rawCopy string
				if k%4 == 2 {
					// with an event channel and the library's milestone generator (all goroutines at the same time, on the same job):
					// the milestones of THIS call lie inside this call
					mi := k % nWarm
					if bad := milestonesOf(jobs[mi].profile, jobs[mi].data); bad != "" {
						mu.Lock()
						calls++
						mismatches = append(mismatches, fmt.Sprintf("goroutine %d call %d Validate with an event channel on job %d: %s", t, k, mi, bad))
						mu.Unlock()
						continue
					}
				}
				switch (t + 2*k) % 3 {
				case 0:
					o := validate(jobs[i].profile, jobs[i].data, defaultRC())
					got, want, what = o.Kind+"\n"+o.Report, serial[i], "ValidateWithConfiguration"
					raw, rawCopy = o.Raw, o.Report
				case 1:
					rep, err := pkg.ValidateCompiledWithConfiguration(shared, jobs[i].data, false, nil, fixedClock{}, defaultRC())
					got, want, what = fmt.Sprint(err == nil)+"\n"+rep, sharedSerial[i], "ValidateCompiled(shared)"
				default:
					c, err := pkg.CompileProfile(jobs[i].profile, false, nil)
					if err != nil {
						// a rejected profile: the serial validation of the same job reports an error too
						got, want, what = "error\n", serial[i], "CompileProfile"
					} else if c == nil {
						got, want, what = "nil compiled profile without an error", serial[i], "CompileProfile"
					} else {
						rep, err := pkg.ValidateCompiledWithConfiguration(c, jobs[i].data, false, nil, fixedClock{}, defaultRC())
						got, want, what = "ok\n"+rep, serial[i], "CompileProfile+ValidateCompiled"
						if err != nil {
							got = "error\n"
						}
					}
				}
				mu.Lock()
				calls++
				if isCold(i) && what != "ValidateCompiled(shared)" {
					cold = append(cold, pending{i, got, fmt.Sprintf("goroutine %d call %d %s on cold job %d", t, k, what, i)})
					mu.Unlock()
					continue
				}
				if got != want {
					mismatches = append(mismatches, fmt.Sprintf("goroutine %d call %d %s on job %d differs from the serial result", t, k, what, i))
				} else if raw != "" {
					r2 := raw
					kept = append(kept, held{&r2, rawCopy, fmt.Sprintf("goroutine %d call %d %s on job %d", t, k, what, i)})
				}
				mu.Unlock()
			}
		}(t)
	}
	wg.Wait()
	for _, h := range kept {
		if *h.got != h.want {
			mismatches = append(mismatches, h.what+": the report CHANGED after it had been returned")
		}
	}
	// the cold jobs' references, now that the concurrent phase is over
	for i, j := range jobs {
		if isCold(i) {
			o := validate(j.profile, j.data, defaultRC())
			serial[i] = o.Kind + "\n" + o.Report
		}
	}
	for _, p := range cold {
		if p.got != serial[p.i] {
			mismatches = append(mismatches, p.what+" differs from the serial result")
		}
	}
	b, _ := json.Marshal(map[string]any{"outcome": "ok", "calls": calls, "goroutines": goroutines, "mismatches": mismatches})
	fmt.Println(string(b))
	_ = os.Stdout
}

// milestonesOf validates with an event channel whose events the library's own generator turns into milestones; returns a
// complaint when they are not one per stage, each lying inside the call's own time span, with a non-negative duration
func milestonesOf(profile, data string) string {
	ch := make(chan events.Event, 32)
	mch := make(chan milestones.Milestone, 32)
	done := make(chan []milestones.Milestone, 1)
	go func() {
		milestones.GenerateMilestonesFromEvents(&ch, &mch) // closes mch when the event channel is closed
	}()
	go func() {
		var ms []milestones.Milestone
		for m := range mch {
			ms = append(ms, m)
		}
		done <- ms
	}()
	t0 := time.Now()
	_, err := pkg.ValidateWithConfiguration(profile, data, false, &ch, fixedClock{}, defaultRC())
	t1 := time.Now()
	var ms []milestones.Milestone
	select {
	case ms = <-done:
	case <-time.After(20 * time.Second):
		return "the milestone generator did not finish (channel not closed?)"
	}
	if err != nil {
		return ""
	}
	if len(ms) != 7 {
		return fmt.Sprintf("%d milestones for 7 completed stages", len(ms))
	}
	for _, m := range ms {
		if m.Duration < 0 || m.Start.Before(t0.Add(-time.Millisecond)) || m.Start.Add(m.Duration).After(t1.Add(time.Millisecond)) {
			return fmt.Sprintf("milestone %s [%s + %s] lies outside the call [%s .. %s]", m.Operation, m.Start.Format("15:04:05.000000"), m.Duration, t0.Format("15:04:05.000000"), t1.Format("15:04:05.000000"))
		}
	}
	return ""
}
