package main

import (
	"bytes"
	"encoding/json"
	"fmt"
	"github.com/aml-org/amf-custom-validator/pkg/events"
	"github.com/aml-org/amf-custom-validator/pkg/milestones"
	"io"
	"math/rand"
	"os"
	"os/exec"
	"regexp"
	"strings"
	"sync"
	"time"

	"github.com/aml-org/amf-custom-validator/pkg"
	"github.com/aml-org/amf-custom-validator/pkg/config"
)

// racestress: N goroutines mixing every entry point over mixed profiles and data (one compiled profile is
// shared by all goroutines); each result is compared with the result of the same call made serially.
// Built with -race, the race detector reports on stderr.
func runRaceStress(seed int64, goroutines, callsEach int) {
	g := &G{r: rand.New(rand.NewSource(seed))}
	maxBranches = 6
	type job struct {
		profile, data string
		rc            *config.ReportConfiguration
	}
	var jobs []job
	for i := 0; i < 6; i++ {
		c := genC01Graph(g, i, true)
		prof := ProfileSpec{Name: fmt.Sprintf("race %d", i), Atoms: c.Atoms, Paths: c.Paths, Validations: c.Validations}
		jobs = append(jobs, job{profile: prof.Render(), data: c.Graph.RenderFlat()})
	}
	// profiles every call must reject: at the parser (missing targetClass at the very end) and at the generator
	// (undeclared prefix in the last of many validations, so that the compilations overlap for a while)
	var many strings.Builder
	many.WriteString("profile: rejected\nprefixes:\n  ex: " + NS + "\nviolation:\n")
	for k := 0; k < 80; k++ {
		fmt.Fprintf(&many, "  - v%d\n", k)
	}
	many.WriteString("validations:\n")
	for k := 0; k < 80; k++ {
		fmt.Fprintf(&many, "  v%d:\n    targetClass: ex.T\n    message: m\n    propertyConstraints:\n      ex.p%d:\n        minCount: 1\n", k, k)
	}
	genFail := strings.Replace(many.String(), "ex.p79:", "undeclared.p79:", 1)
	parseFail := strings.Replace(many.String(), "  v79:\n    targetClass: ex.T\n", "  v79:\n", 1)
	// a big ACCEPTED profile too: its generation takes long enough to overlap with the other goroutines' compilations, and its
	// report depends on every one of the many names the generator invents
	var big strings.Builder
	big.WriteString("profile: big\nprefixes:\n  ex: " + NS + "\nviolation:\n")
	for k := 0; k < 40; k++ {
		fmt.Fprintf(&big, "  - b%d\n", k)
	}
	big.WriteString("validations:\n")
	for k := 0; k < 40; k++ {
		fmt.Fprintf(&big, "  b%d:\n    targetClass: ex.T\n    message: m\n    propertyConstraints:\n      ex.p%d / ex.p%d:\n        minCount: %d\n      ex.p%d:\n        in: [a, b, \"%d\"]\n", k, k%4, (k/4)%4, 1+k%2, (k+1)%4, k%3)
	}
	jobs = append(jobs, job{profile: big.String(), data: jobs[1].data})
	// COLD jobs: profiles without a `prefixes` section (built-in aliases only), each over property names no other call of this
	// process has seen; their serial references are computed AFTER the concurrent phase, so the concurrent calls are the
	// first to touch whatever the library keeps per process
	nWarm := len(jobs)
	for k := 0; k < 8; k++ {
		var cp strings.Builder
		fmt.Fprintf(&cp, "profile: cold %d\nviolation:\n  - v\nvalidations:\n  v:\n    targetClass: apiContract.EndPoint\n    message: m\n    propertyConstraints:\n", k)
		for j := 0; j < 30; j++ {
			fmt.Fprintf(&cp, "      core.n%d_%d_%d:\n        minCount: 1\n", seed%1000, k, j)
		}
		cp.WriteString("      core.name:\n        pattern: ^[a-z]+$\n")
		jobs = append(jobs, job{profile: cp.String(), data: `[{"@id":"http://ex.org/n/0","@type":["http://a.ml/vocabularies/apiContract#EndPoint"],"http://a.ml/vocabularies/core#name":"Abc"}]`})
	}
	// ... and documents whose @context is not inline but a FILE the JSON-LD processor has to load (one file per job, plus one
	// shared file pulled in through @import): whatever the processor keeps about loaded documents is first touched concurrently
	if dir, err := os.MkdirTemp("", "acvctx"); err == nil {
		defer os.RemoveAll(dir)
		shared := dir + "/shared.jsonld"
		os.WriteFile(shared, []byte(`{"@context":{"api":"http://a.ml/vocabularies/apiContract#","core":"http://a.ml/vocabularies/core#"}}`), 0644)
		for k := 0; k < 6; k++ {
			f := fmt.Sprintf("%s/ctx_%d.jsonld", dir, k)
			os.WriteFile(f, []byte(fmt.Sprintf(`{"@context":{"api":"http://a.ml/vocabularies/apiContract#","core":"http://a.ml/vocabularies/core#","t%d":"http://ex.org/t%d#"}}`, k, k)), 0644)
			ctx := `"` + f + `"`
			if k%2 == 1 {
				ctx = fmt.Sprintf(`{"@import":"%s","name%d":"core:name"}`, shared, k)
			}
			data := fmt.Sprintf(`{"@context":%s,"@id":"http://ex.org/n/%d","@type":"api:EndPoint","core:name":"Abc%d"}`, ctx, k, k)
			jobs = append(jobs, job{profile: jobs[nWarm+k].profile, data: data})
		}
	}
	nCold := len(jobs) - nWarm
	// jobs whose EVALUATION fails (neither the compilation nor the reading of the data): a helper of rego_extensions with two
	// clauses that disagree on some nodes.  Whatever a call holds while it evaluates must be given back on this way out too:
	// the schedule below runs well over runtime.NumCPU() of them
	evalFail := "profile: picky\nprefixes:\n  ex: " + NS + "\nrego_extensions: |\n  code_of(n) = c {\n    c := n[\"" + NS + "p0\"]\n  }\n  code_of(n) = c {\n    c := n[\"" + NS + "p1\"]\n  }\nviolation:\n  - has-code\nvalidations:\n  has-code:\n    message: m\n    targetClass: ex.T\n    rego: |\n      $result = (code_of($node) == 7)\n"
	evalFailData := `[{"@id":"http://ex.org/n/0","@type":["` + NS + `T"],"` + NS + `p0":1,"` + NS + `p1":2},{"@id":"http://ex.org/n/1","@type":["` + NS + `T"],"` + NS + `p0":7}]`
	evalOkData := `[{"@id":"http://ex.org/n/1","@type":["` + NS + `T"],"` + NS + `p0":7},{"@id":"http://ex.org/n/2","@type":["` + NS + `T"],"` + NS + `p1":3}]`
	nEval := 0
	for k := 0; k < 5; k++ {
		d := evalFailData
		if k == 4 {
			d = evalOkData
		}
		jobs = append(jobs, job{profile: evalFail, data: d})
		nEval++
	}
	// report configurations: every job has one of its own, and several of them agree in one schema IRI and differ in the other
	for i := range jobs {
		switch i % 5 {
		case 1:
			jobs[i].rc = &config.ReportConfiguration{IncludeReportCreationTime: true, ReportSchemaIri: defaultRC().ReportSchemaIri, LexicalSchemaIri: fmt.Sprintf("http://ex.org/lexical/%d#", i)}
		case 2:
			jobs[i].rc = &config.ReportConfiguration{IncludeReportCreationTime: true, ReportSchemaIri: fmt.Sprintf("http://ex.org/report/%d#", i), LexicalSchemaIri: defaultRC().LexicalSchemaIri}
		case 3:
			jobs[i].rc = &config.ReportConfiguration{IncludeReportCreationTime: false, ReportSchemaIri: "http://ex.org/report/shared#", LexicalSchemaIri: fmt.Sprintf("http://ex.org/lexical/%d#", i)}
		}
	}
	rcFor := func(i int) config.ReportConfiguration {
		if jobs[i].rc != nil {
			return *jobs[i].rc
		}
		return defaultRC()
	}
	jobs = append(jobs, job{profile: genFail, data: jobs[0].data}, job{profile: parseFail, data: jobs[0].data})
	isCold := func(i int) bool { return i >= nWarm && i < nWarm+nCold }
	serial := make([]string, len(jobs))
	for i, j := range jobs {
		if isCold(i) {
			continue
		}
		o := validate(j.profile, j.data, rcFor(i))
		serial[i] = o.Kind + "\n" + o.Report + maskAddr(o.Err)
	}
	shared, err := pkg.CompileProfile(jobs[0].profile, false, nil)
	if err != nil {
		fmt.Println(`{"outcome":"setup-failed"}`)
		return
	}
	sharedSerial := make([]string, len(jobs))
	for i, j := range jobs {
		rep, err := pkg.ValidateCompiledWithConfiguration(shared, j.data, false, nil, fixedClock{}, rcFor(i))
		sharedSerial[i] = fmt.Sprint(err == nil) + "\n" + rep
	}
	var wg sync.WaitGroup
	var mu sync.Mutex
	mismatches := []string{}
	calls := 0
	type pending struct {
		i         int
		got, what string
	}
	var cold []pending
	// every report that came back is kept and looked at again when everything is over: what a call returned must still be
	// what it returned (a recycled buffer behind a report would show here)
	type held struct {
		got  *string
		want string
		what string
	}
	var kept []held
	// a call that never returns is not "what it would return alone": after a generous deadline the calls still in flight are named
	inflight := map[int]string{}
	started := time.Now()
	watchdog := time.AfterFunc(time.Duration(120+2*goroutines*callsEach)*time.Second, func() {
		mu.Lock()
		var stuck []string
		for t := 0; t < goroutines; t++ {
			if w, ok := inflight[t]; ok {
				stuck = append(stuck, w)
			}
		}
		b, _ := json.Marshal(map[string]any{"outcome": "blocked", "calls": calls, "goroutines": goroutines, "after_s": int(time.Since(started).Seconds()), "stuck": stuck, "mismatches": mismatches})
		fmt.Println(string(b))
		os.Exit(3)
	})
	defer watchdog.Stop()
	for t := 0; t < goroutines; t++ {
		wg.Add(1)
		go func(t int) {
			defer wg.Done()
			defer func() {
				if r := recover(); r != nil {
					mu.Lock()
					mismatches = append(mismatches, fmt.Sprintf("goroutine %d panicked: %v", t, r))
					mu.Unlock()
				}
			}()
			defer func() {
				mu.Lock()
				delete(inflight, t)
				mu.Unlock()
			}()
			for k := 0; k < callsEach; k++ {
				i := (t + k) % len(jobs)
				if k == 0 {
					i = nWarm + t%nCold // every goroutine starts with a cold job, all at the same time
				}
				switch k % 3 {
				case 1:
					i = len(jobs) - 1 - (k/3)%2 // every goroutine compiles the same REJECTED profile at the same time
				case 2:
					i = k % (len(jobs) - 2) // every goroutine works on the same valid job at the same time
				}
				if k%4 == 3 {
					i = nWarm + nCold + (t+k)%nEval // calls whose evaluation fails (one in five of these jobs evaluates fine)
				}
				var got, want, what string
				var raw, rawCopy string
				mu.Lock()
				inflight[t] = fmt.Sprintf("goroutine %d call %d on job %d", t, k, i)
				mu.Unlock()
				if k%4 == 2 {
					// with an event channel and the library's milestone generator (all goroutines at the same time, on the same job):
					// the milestones of THIS call lie inside this call
					mi := k % nWarm
					if bad := milestonesOf(jobs[mi].profile, jobs[mi].data); bad != "" {
						mu.Lock()
						calls++
						mismatches = append(mismatches, fmt.Sprintf("goroutine %d call %d Validate with an event channel on job %d: %s", t, k, mi, bad))
						mu.Unlock()
						continue
					}
				}
				switch (t + 2*k) % 3 {
				case 0:
					o := validate(jobs[i].profile, jobs[i].data, rcFor(i))
					got, want, what = o.Kind+"\n"+o.Report+maskAddr(o.Err), serial[i], "ValidateWithConfiguration"
					raw, rawCopy = o.Raw, o.Report
				case 1:
					rep, err := pkg.ValidateCompiledWithConfiguration(shared, jobs[i].data, false, nil, fixedClock{}, rcFor(i))
					got, want, what = fmt.Sprint(err == nil)+"\n"+rep, sharedSerial[i], "ValidateCompiled(shared)"
				default:
					c, err := pkg.CompileProfile(jobs[i].profile, false, nil)
					if err != nil {
						// a rejected profile: the serial validation of the same job reports an error too
						got, want, what = "error\n"+maskAddr(err.Error()), serial[i], "CompileProfile"
					} else if c == nil {
						got, want, what = "nil compiled profile without an error", serial[i], "CompileProfile"
					} else {
						rep, err := pkg.ValidateCompiledWithConfiguration(c, jobs[i].data, false, nil, fixedClock{}, rcFor(i))
						got, want, what = "ok\n"+rep, serial[i], "CompileProfile+ValidateCompiled"
						if err != nil {
							got = "error\n" + maskAddr(err.Error())
						}
					}
				}
				mu.Lock()
				calls++
				if isCold(i) && what != "ValidateCompiled(shared)" {
					cold = append(cold, pending{i, got, fmt.Sprintf("goroutine %d call %d %s on cold job %d", t, k, what, i)})
					mu.Unlock()
					continue
				}
				if got != want {
					mismatches = append(mismatches, fmt.Sprintf("goroutine %d call %d %s on job %d differs from the serial result", t, k, what, i))
				} else if raw != "" {
					r2 := raw
					kept = append(kept, held{&r2, rawCopy, fmt.Sprintf("goroutine %d call %d %s on job %d", t, k, what, i)})
				}
				mu.Unlock()
			}
		}(t)
	}
	wg.Wait()
	for _, h := range kept {
		if *h.got != h.want {
			mismatches = append(mismatches, h.what+": the report CHANGED after it had been returned")
		}
	}
	// the cold jobs' references, now that the concurrent phase is over
	for i, j := range jobs {
		if isCold(i) {
			o := validate(j.profile, j.data, rcFor(i))
			serial[i] = o.Kind + "\n" + o.Report + maskAddr(o.Err)
		}
	}
	for _, p := range cold {
		if p.got != serial[p.i] {
			mismatches = append(mismatches, p.what+" differs from the serial result")
		}
	}
	// the serial results themselves against the same call ALONE in a fresh process (several at a time: they are independent)
	soloBad := make([]string, len(jobs))
	var swg sync.WaitGroup
	sem := make(chan struct{}, 8)
	for i := range jobs {
		swg.Add(1)
		go func(i int) {
			defer swg.Done()
			sem <- struct{}{}
			defer func() { <-sem }()
			if solo, ok := soloJob(jobs[i].profile, jobs[i].data, rcFor(i)); ok && solo != serial[i] {
				soloBad[i] = fmt.Sprintf("job %d (report configuration %v): the result in this process, after other calls, differs from the same call alone in a fresh process", i, rcFor(i))
			}
		}(i)
	}
	swg.Wait()
	for _, b := range soloBad {
		if b != "" {
			mismatches = append(mismatches, b)
		}
	}
	b, _ := json.Marshal(map[string]any{"outcome": "ok", "calls": calls, "goroutines": goroutines, "mismatches": mismatches})
	fmt.Println(string(b))
	_ = os.Stdout
}

var addrRe = regexp.MustCompile(`0x[0-9a-fA-F]+`)

// maskAddr: the text of an error is part of what a call returns; only the addresses some messages print are not
func maskAddr(s string) string { return addrRe.ReplaceAllString(s, "0xX") }

// soloJob: what one call returns when it is the only call its process ever makes (the reference C10 speaks of: "what it would
// return if it ran alone"); the job is handed to a fresh process of this binary
type soloReq struct {
	Profile string `json:"profile"`
	Data    string `json:"data"`
	Report  string `json:"report"`
	Lexical string `json:"lexical"`
	Date    bool   `json:"date"`
}

func soloJob(profile, data string, rc config.ReportConfiguration) (string, bool) {
	exe, err := os.Executable()
	if err != nil {
		return "", false
	}
	b, _ := json.Marshal(soloReq{profile, data, rc.ReportSchemaIri, rc.LexicalSchemaIri, rc.IncludeReportCreationTime})
	cmd := exec.Command(exe, "solojob")
	cmd.Stdin = bytes.NewReader(b)
	cmd.Env = append(os.Environ(), "GORACE=halt_on_error=0")
	out, err := cmd.Output()
	if err != nil {
		return "", false
	}
	return string(out), true
}

func runSoloJob(in io.Reader) {
	var q soloReq
	if err := json.NewDecoder(in).Decode(&q); err != nil {
		os.Exit(2)
	}
	o := validate(q.Profile, q.Data, config.ReportConfiguration{IncludeReportCreationTime: q.Date, ReportSchemaIri: q.Report, LexicalSchemaIri: q.Lexical})
	fmt.Print(o.Kind + "\n" + o.Report + maskAddr(o.Err))
}

// milestonesOf validates with an event channel whose events the library's own generator turns into milestones; returns a
// complaint when they are not one per stage, each lying inside the call's own time span, with a non-negative duration
func milestonesOf(profile, data string) string {
	ch := make(chan events.Event, 32)
	mch := make(chan milestones.Milestone, 32)
	done := make(chan []milestones.Milestone, 1)
	go func() {
		milestones.GenerateMilestonesFromEvents(&ch, &mch) // closes mch when the event channel is closed
	}()
	go func() {
		var ms []milestones.Milestone
		for m := range mch {
			ms = append(ms, m)
		}
		done <- ms
	}()
	t0 := time.Now()
	_, err := pkg.ValidateWithConfiguration(profile, data, false, &ch, fixedClock{}, defaultRC())
	t1 := time.Now()
	var ms []milestones.Milestone
	select {
	case ms = <-done:
	case <-time.After(20 * time.Second):
		return "the milestone generator did not finish (channel not closed?)"
	}
	if err != nil {
		return ""
	}
	if len(ms) != 7 {
		return fmt.Sprintf("%d milestones for 7 completed stages", len(ms))
	}
	for _, m := range ms {
		if m.Duration < 0 || m.Start.Before(t0.Add(-time.Millisecond)) || m.Start.Add(m.Duration).After(t1.Add(time.Millisecond)) {
			return fmt.Sprintf("milestone %s [%s + %s] lies outside the call [%s .. %s]", m.Operation, m.Start.Format("15:04:05.000000"), m.Duration, t0.Format("15:04:05.000000"), t1.Format("15:04:05.000000"))
		}
	}
	return ""
}
