package main

import (
	"encoding/base64"
	"encoding/json"
	"io"
	"os"
	"path/filepath"
	"strings"
)

// "fuzz" cases: arbitrary (mostly near-valid) byte strings as profile and data through every entry point.
type FuzzCase struct {
	Op      string `json:"op"`
	Id      int    `json:"id"`
	Entry   int    `json:"entry"`
	Kind    string `json:"kind"`
	Profile string `json:"profile"`
	Data    string `json:"data"`
	// byte strings that are not valid UTF-8 cannot travel in a JSON string: base64 instead (used when present)
	ProfileB64 string `json:"profileB64,omitempty"`
	DataB64    string `json:"dataB64,omitempty"`
}

var hostileProfiles = []string{
	"", " ", "\n", "#", "---", "--- \n...", "null", "~", "5", "\"x\"", "[]", "{}", "- 1", "a: b", "profile:", "profile: 1",
	"profile: p\nvalidations: 5", "profile: p\nvalidations: []", "profile: p\nvalidations: {}\nviolation: 5",
	"profile: p\nvalidations: {}\nviolation: [[a]]", "profile: p\nvalidations: {v: 5}\nviolation: [v]",
	"profile: p\nvalidations: {v: {}}\nviolation: [v]", "profile: p\nvalidations: {v: {targetClass: 5}}\nviolation: [v]",
	"profile: p\nvalidations: {v: {targetClass: ex.T}}\nviolation: [v]",
	"profile: p\nvalidations: {v: {targetClass: ex.T, propertyConstraints: 5}}\nviolation: [v]",
	"profile: p\nvalidations: {v: {targetClass: ex.T, propertyConstraints: {}}}\nviolation: [v]",
	"profile: p\nvalidations: {v: {targetClass: ex.T, propertyConstraints: {ex.p: 5}}}\nviolation: [v]",
	"profile: p\nvalidations: {v: {targetClass: ex.T, propertyConstraints: {ex.p: {}}}}\nviolation: [v]",
	"profile: p\nvalidations: {v: {targetClass: ex.T, propertyConstraints: {ex.p: {minCount: x}}}}\nviolation: [v]",
	"profile: p\nvalidations: {v: {targetClass: ex.T, propertyConstraints: {ex.p: {in: 5}}}}\nviolation: [v]",
	"profile: p\nvalidations: {v: {targetClass: ex.T, propertyConstraints: {ex.p: {in: [[1]]}}}}\nviolation: [v]",
	"profile: p\nvalidations: {v: {targetClass: ex.T, propertyConstraints: {ex.p: {in: []}}}}\nviolation: [v]",
	"profile: p\nvalidations: {v: {targetClass: ex.T, propertyConstraints: {ex.p: {nested: 5}}}}\nviolation: [v]",
	"profile: p\nvalidations: {v: {targetClass: ex.T, propertyConstraints: {ex.p: {nested: {}}}}}\nviolation: [v]",
	"profile: p\nvalidations: {v: {targetClass: ex.T, propertyConstraints: {ex.p: {atLeast: {}}}}}\nviolation: [v]",
	"profile: p\nvalidations: {v: {targetClass: ex.T, propertyConstraints: {ex.p: {atLeast: {count: 1}}}}}\nviolation: [v]",
	"profile: p\nvalidations: {v: {targetClass: ex.T, propertyConstraints: {ex.p: {atLeast: {count: 1, validation: {}}}}}}\nviolation: [v]",
	"profile: p\nvalidations: {v: {targetClass: ex.T, propertyConstraints: {ex.p: {datatype: 5}}}}\nviolation: [v]",
	"profile: p\nvalidations: {v: {targetClass: ex.T, propertyConstraints: {ex.p: {datatype: nope}}}}\nviolation: [v]",
	"profile: p\nvalidations: {v: {targetClass: ex.T, propertyConstraints: {ex.p: {minInclusive: x}}}}\nviolation: [v]",
	"profile: p\nvalidations: {v: {targetClass: ex.T, propertyConstraints: {ex.p: {lessThanProperty: 5}}}}\nviolation: [v]",
	"profile: p\nvalidations: {v: {targetClass: ex.T, propertyConstraints: {ex.p: {lessThanProperty: '(('}}}}\nviolation: [v]",
	"profile: p\nvalidations: {v: {targetClass: ex.T, propertyConstraints: {'': {minCount: 1}}}}\nviolation: [v]",
	"profile: p\nvalidations: {v: {targetClass: ex.T, propertyConstraints: {'@type': {minCount: 1}}}}\nviolation: [v]",
	"profile: p\nvalidations: {v: {targetClass: ex.T, propertyConstraints: {'ex.p*': {minCount: 1}}}}\nviolation: [v]",
	"profile: p\nvalidations: {v: {targetClass: ex.T, propertyConstraints: {'apiExt.foo': {minCount: 1}}}}\nviolation: [v]",
	"profile: p\nvalidations: {v: {targetClass: ex.T, propertyConstraints: {'apiExt.foo^': {minCount: 1}}}}\nviolation: [v]",
	"profile: p\nvalidations: {v: {targetClass: ex.T, and: []}}\nviolation: [v]",
	"profile: p\nvalidations: {v: {targetClass: ex.T, or: []}}\nviolation: [v]",
	"profile: p\nvalidations: {v: {targetClass: ex.T, or: [5]}}\nviolation: [v]",
	"profile: p\nvalidations: {v: {targetClass: ex.T, not: {}}}\nviolation: [v]",
	"profile: p\nvalidations: {v: {targetClass: ex.T, not: {and: []}}}\nviolation: [v]",
	"profile: p\nvalidations: {v: {targetClass: ex.T, if: {}}}\nviolation: [v]",
	"profile: p\nvalidations: {v: {targetClass: ex.T, if: {and: []}, then: {or: []}}}\nviolation: [v]",
	"profile: p\nvalidations: {v: {targetClass: ex.T, rego: 5}}\nviolation: [v]",
	"profile: p\nvalidations: {v: {targetClass: ex.T, rego: {}}}\nviolation: [v]",
	"profile: p\nvalidations: {v: {targetClass: ex.T, rego: {code: 5}}}\nviolation: [v]",
	"profile: p\nvalidations: {v: {targetClass: ex.T, rego: '$result = true'}}\nviolation: [v]",
	"profile: p\nvalidations: {v: {targetClass: ex.T, regoModule: ''}}\nviolation: [v]",
	"profile: p\nprefixes: 5\nvalidations: {}",
	"profile: p\nprefixes: {ex: 5}\nvalidations: {}",
	"profile: p\nprefixes: {ex: [a]}\nvalidations: {}",
	"profile: p\nrego_extensions: 'violation = 5'\nvalidations: {}",
	"profile: p\nrego_extensions: 'info = {\"a\": 1}'\nvalidations: {}",
	"profile: p\nrego_extensions: 'report = 5'\nvalidations: {}",
	"profile: p\nrego_extensions: 'warning = \"x\"'\nvalidations: {}",
	"profile: p\nrego_extensions: 'warning[x] { x := 5 }'\nvalidations: {}",
	"profile: p\nrego_extensions: 'info[x] { x := {\"a\": 1} }'\nvalidations: {}",
	"profile: p\nrego_extensions: 'violation[x] { x := {\"@type\": 5, \"trace\": 7} }'\nvalidations: {}",
	"profile: &a [*a]\nvalidations: {}",
	"profile: p\nvalidations: &v {v: *v}\nviolation: [v]",
	"profile: p\nvalidations: {v: &x {targetClass: ex.T, not: *x}}\nviolation: [v]",
	"profile: p\n<<: {validations: {}}",
	"profile: !!binary aGk=\nvalidations: {}",
	"profile: p\nvalidations:\n  ? [complex, key]\n  : {targetClass: ex.T}\nviolation: [v]",
	"profile: p\nviolation: [v, v, 5, null, [x]]\nvalidations: {v: {targetClass: ex.T, propertyConstraints: {ex.p: {minCount: 1}}}}",
	"profile: p\nviolation: v\nvalidations: {v: {targetClass: ex.T, propertyConstraints: {ex.p: {minCount: 1}}}}",
}

var hostileData = []string{
	"[] ]", "{} {}", "[]\x00", "[]x", "{\"@id\": \"http://a\"} trailing", "[{\"@id\":\"http://a\",\"@type\":\"http://ex.org/v#T\"}]\n[{\"@id\":\"http://b\",\"@type\":\"http://ex.org/v#T\"}]",
	"[]", "{}", "null", "5", "\"x\"", "true", "[[]]", "[null]", "[1,2]", "{\"@graph\": 5}", "{\"@graph\": []}", "{\"@graph\": [5]}",
	"{\"@id\": \"http://a\"}", "{\"@id\": \"a\"}", "{\"@id\": \"_:b\", \"http://p\": 1}", "{\"http://p\": 1}",
	"[{\"@id\":\"http://a\",\"@type\":\"http://ex.org/v#T\"}]",
	"[{\"@id\":\"http://a\",\"@type\":[\"http://ex.org/v#T\"],\"http://ex.org/v#p\":{\"@list\":[1,2]}}]",
	"[{\"@id\":\"http://a\",\"@type\":[\"http://ex.org/v#T\"],\"http://ex.org/v#p\":{\"@value\":\"x\",\"@language\":\"en\"}}]",
	"[{\"@id\":\"http://a\",\"@type\":[\"http://ex.org/v#T\"],\"http://ex.org/v#p\":{\"@value\":\"2020\",\"@type\":\"http://www.w3.org/2001/XMLSchema#date\"}}]",
	"[{\"@id\":\"http://a\",\"@type\":[\"http://ex.org/v#T\"],\"http://ex.org/v#p\":[null, 1.5, 1e400, -0, 123456789012345678901234567890]}]",
	// source maps with malformed entries
	"[{\"@id\":\"http://a\",\"@type\":[\"http://a.ml/vocabularies/document-source-maps#SourceMap\"],\"http://a.ml/vocabularies/document-source-maps#lexical\":5}]",
	"[{\"@id\":\"http://a\",\"@type\":[\"http://a.ml/vocabularies/document-source-maps#SourceMap\"],\"http://a.ml/vocabularies/document-source-maps#lexical\":[{\"@id\":\"http://nowhere\"}]}]",
	"[{\"@id\":\"http://a\",\"@type\":[\"http://a.ml/vocabularies/document-source-maps#SourceMap\"],\"http://a.ml/vocabularies/document-source-maps#lexical\":[{\"@id\":\"http://l\"}]},{\"@id\":\"http://l\",\"http://a.ml/vocabularies/document-source-maps#element\":5,\"http://a.ml/vocabularies/document-source-maps#value\":\"[(1,2)-(3,4)]\"}]",
	"[{\"@id\":\"http://a\",\"@type\":[\"http://a.ml/vocabularies/document-source-maps#SourceMap\"],\"http://a.ml/vocabularies/document-source-maps#lexical\":[{\"@id\":\"http://l\"}]},{\"@id\":\"http://l\",\"http://a.ml/vocabularies/document-source-maps#element\":{\"@id\":\"http://a\"},\"http://a.ml/vocabularies/document-source-maps#value\":5}]",
	"[{\"@id\":\"http://a\",\"@type\":[\"http://a.ml/vocabularies/document-source-maps#SourceMap\"],\"http://a.ml/vocabularies/document-source-maps#lexical\":[{\"@value\":\"x\"}]}]",
	"[{\"@id\":\"http://a\",\"@type\":[\"http://a.ml/vocabularies/document#BaseUnitSourceInformation\"]}]",
	"[{\"@id\":\"http://a\",\"@type\":[\"http://a.ml/vocabularies/document#BaseUnitSourceInformation\"],\"http://a.ml/vocabularies/document#rootLocation\":5,\"http://a.ml/vocabularies/document#additionalLocations\":[{\"@id\":\"http://nowhere\"},5,{\"@id\":\"http://loc\"}]},{\"@id\":\"http://loc\",\"http://a.ml/vocabularies/document#location\":7,\"http://a.ml/vocabularies/document#elements\":[5]}]",
	"[{\"@id\":\"http://a\",\"@type\":[\"http://ex.org/v#T\"],\"http://ex.org/v#p\":[{\"@id\":\"http://a\"}]}]",
}

// every source-map field the indexer reads, given every shape a JSON-LD value can take after flattening
func sourceMapHostile() []string {
	shapes := []string{`"plain"`, `5`, `true`, `null`, `[]`, `["a","b"]`, `{"@id":"http://ex.org/n/1"}`, `{"@id":"http://nowhere"}`, `[{"@id":"http://ex.org/n/1"},{"@id":"http://ex.org/n/2"}]`,
		`{"@value":"x","@type":"http://www.w3.org/2001/XMLSchema#anyURI"}`, `{"@value":"x","@language":"en"}`, `{"@list":["http://ex.org/n/1"]}`, `{"@list":[]}`,
		`[{"@value":"x","@type":"http://t"},"y"]`, `{"@value":5}`, `{"http://p":"blank node"}`}
	const sm = "http://a.ml/vocabularies/document-source-maps#"
	const doc = "http://a.ml/vocabularies/document#"
	target := `{"@id":"http://ex.org/n/1","@type":["http://ex.org/v#T"]},{"@id":"http://ex.org/n/2","@type":["http://ex.org/v#T"],"http://ex.org/v#p0":"x"}`
	var out []string
	for _, sh := range shapes {
		// lexical entry fields
		out = append(out, `[`+target+`,{"@id":"http://ex.org/sm","@type":["`+sm+`SourceMap"],"`+sm+`lexical":[{"@id":"http://ex.org/l"}]},{"@id":"http://ex.org/l","`+sm+`element":`+sh+`,"`+sm+`value":"[(1,2)-(3,4)]"}]`)
		out = append(out, `[`+target+`,{"@id":"http://ex.org/sm","@type":["`+sm+`SourceMap"],"`+sm+`lexical":[{"@id":"http://ex.org/l"}]},{"@id":"http://ex.org/l","`+sm+`element":"http://ex.org/n/1","`+sm+`value":`+sh+`}]`)
		out = append(out, `[`+target+`,{"@id":"http://ex.org/sm","@type":["`+sm+`SourceMap"],"`+sm+`lexical":`+sh+`}]`)
		// source information fields
		base := `{"@id":"http://ex.org/sm","@type":["` + sm + `SourceMap"],"` + sm + `lexical":[{"@id":"http://ex.org/l"}]},{"@id":"http://ex.org/l","` + sm + `element":"http://ex.org/n/1","` + sm + `value":"[(1,2)-(3,4)]"}`
		out = append(out, `[`+target+`,`+base+`,{"@id":"http://ex.org/info","@type":["`+doc+`BaseUnitSourceInformation"],"`+doc+`rootLocation":`+sh+`}]`)
		out = append(out, `[`+target+`,`+base+`,{"@id":"http://ex.org/info","@type":["`+doc+`BaseUnitSourceInformation"],"`+doc+`rootLocation":"file:///r","`+doc+`additionalLocations":`+sh+`}]`)
		out = append(out, `[`+target+`,`+base+`,{"@id":"http://ex.org/info","@type":["`+doc+`BaseUnitSourceInformation"],"`+doc+`rootLocation":"file:///r","`+doc+`additionalLocations":[{"@id":"http://ex.org/loc"}]},{"@id":"http://ex.org/loc","`+doc+`location":`+sh+`,"`+doc+`elements":[{"@id":"http://ex.org/n/1"}]}]`)
		out = append(out, `[`+target+`,`+base+`,{"@id":"http://ex.org/info","@type":["`+doc+`BaseUnitSourceInformation"],"`+doc+`rootLocation":"file:///r","`+doc+`additionalLocations":[{"@id":"http://ex.org/loc"}]},{"@id":"http://ex.org/loc","`+doc+`location":"file:///l","`+doc+`elements":`+sh+`}]`)
		// ordinary property values of a target node and its @type
		out = append(out, `[{"@id":"http://ex.org/n/1","@type":["http://ex.org/v#T"],"http://ex.org/v#p0":`+sh+`}]`)
	}
	// lexical range strings that are not in the `[(l,c)-(l,c)]` format
	for _, rng := range []string{"[(1,0)-(2,007)]", "[(01,1)-(2,2)]", "[(1,2)-(3)]", "[(1,2)]", "(a,b)-(c,d)", "", "1", "[(1,2)-(3,4)-(5,6)]", "[(-1,2)-(3,4)]", "[(1.5,2)-(3,4)]", "[(1e3,2)-(3,4)]", "[(١,٢)-(٣,٤)]", "[(0x10,2)-(3,4)]"} {
		rb, _ := json.Marshal(rng)
		out = append(out, `[`+target+`,{"@id":"http://ex.org/sm","@type":["`+sm+`SourceMap"],"`+sm+`lexical":[{"@id":"http://ex.org/l"}]},{"@id":"http://ex.org/l","`+sm+`element":"http://ex.org/n/1","`+sm+`value":`+string(rb)+`}]`)
	}
	return out
}

func readFixtures(repo string, max int) (profiles, datas []string) {
	filepath.Walk(repo+"/test/data", func(path string, info os.FileInfo, err error) error {
		if err != nil || info.IsDir() || info.Size() > 60000 {
			return nil
		}
		if strings.HasSuffix(path, "profile.yaml") && len(profiles) < max {
			if b, e := os.ReadFile(path); e == nil {
				profiles = append(profiles, string(b))
			}
		}
		if strings.HasSuffix(path, ".data.jsonld") && len(datas) < max {
			if b, e := os.ReadFile(path); e == nil {
				datas = append(datas, string(b))
			}
		}
		return nil
	})
	return
}

func (g *G) mutate(s string) string {
	b := []byte(s)
	k := 1 + g.n(3)
	for i := 0; i < k; i++ {
		if len(b) == 0 {
			b = append(b, byte(g.n(256)))
			continue
		}
		pos := g.n(len(b))
		switch g.n(8) {
		case 0:
			b[pos] = byte(g.n(256))
		case 1:
			b = append(b[:pos], b[pos+1:]...)
		case 2:
			ins := []string{"\"", "'", "\\", "{", "}", "[", "]", ":", "-", "\n", "  ", "&a ", "*a", "!!", "%", "|", ">", "#", "\x00", "\xff"}[g.n(20)]
			b = append(b[:pos], append([]byte(ins), b[pos:]...)...)
		case 3:
			b = b[:pos]
		case 4:
			end := pos + g.n(40)
			if end > len(b) {
				end = len(b)
			}
			chunk := append([]byte(nil), b[pos:end]...)
			b = append(b[:pos], append(chunk, b[pos:]...)...)
		case 5:
			end := pos + g.n(60)
			if end > len(b) {
				end = len(b)
			}
			b = append(b[:pos], b[end:]...)
		case 6:
			// swap a structural token
			for _, pair := range [][2]string{{"and:", "or:"}, {"minCount", "maxCount"}, {"[", "{"}, {": ", ":"}, {"- ", ""}, {"\"@id\"", "\"@value\""}, {"\"@type\"", "\"@id\""}} {
				if i := strings.Index(string(b[pos:]), pair[0]); i >= 0 {
					s2 := string(b[:pos+i]) + pair[1] + string(b[pos+i+len(pair[0]):])
					b = []byte(s2)
					break
				}
			}
		default:
			// change indentation of one line
			if i := strings.LastIndex(string(b[:pos]), "\n"); i >= 0 {
				b = append(b[:i+1], append([]byte(" "), b[i+1:]...)...)
			}
		}
	}
	return string(b)
}

func genFuzz(g *G, repo string, n int, out io.Writer) {
	enc := json.NewEncoder(out)
	profiles, datas := readFixtures(repo, 40)
	profiles = append(profiles, okProfile)
	datas = append(datas, okData)
	id := 0
	emit := func(kind, p, d string) {
		enc.Encode(FuzzCase{Op: "fuzz", Id: id, Entry: []int{0, 1, 2, 3, 4}[id%5], Kind: kind, Profile: p, Data: d})
		id++
	}
	emitRaw := func(kind string, p, d []byte) {
		c := FuzzCase{Op: "fuzz", Id: id, Entry: []int{0, 1, 2, 3, 4}[id%5], Kind: kind, Profile: okProfile, Data: okData}
		if p != nil {
			c.Profile, c.ProfileB64 = "", base64.StdEncoding.EncodeToString(p)
		}
		if d != nil {
			c.Data, c.DataB64 = "", base64.StdEncoding.EncodeToString(d)
		}
		enc.Encode(c)
		id++
	}
	// every single byte, and every pair over the bytes that matter to the two decoders, as data and as profile
	for b := 0; b < 256; b++ {
		emitRaw("byte1-data", nil, []byte{byte(b)})
		if b%3 == 0 || b < 0x30 {
			emitRaw("byte1-profile", []byte{byte(b)}, nil)
		}
	}
	alpha := []byte("{}[]\",:0 t-\n#&*!|>%@`'\\\x00\xff\xc3\xef")
	for _, a := range alpha {
		for _, b := range alpha {
			emitRaw("byte2-data", nil, []byte{a, b})
			if (int(a)+int(b))%2 == 0 {
				emitRaw("byte2-profile", []byte{a, b}, nil)
			}
		}
	}
	for _, p := range hostileProfiles {
		emit("hostile-profile", p, okData)
	}
	for _, d := range hostileData {
		emit("hostile-data", okProfile, d)
		emit("hostile-data", okProfile, d)
	}
	for _, d := range badIriData() {
		emit("hostile-iri", okProfile, d)
	}
	// nesting depth around and far beyond the decoders' limits (encoding/json and yaml.v3 both stop at 10000)
	for _, d := range []int{5000, 9999, 10001, 100000} {
		emit("deep-data", okProfile, strings.Repeat("[", d)+strings.Repeat("]", d))
		emit("deep-data", okProfile, strings.Repeat(`{"@graph":[`, d)+strings.Repeat("]}", d))
		emit("deep-data", okProfile, strings.Repeat(`{"@id":"http://a","http://p":`, d)+"1"+strings.Repeat("}", d))
	}
	for _, d := range []int{2000, 20000} {
		emit("deep-profile", "profile: "+strings.Repeat("[", d)+strings.Repeat("]", d), okData)
		emit("deep-profile", "profile: P\nviolation: [v]\nvalidations:\n  v:\n    targetClass: core.T\n    "+strings.Repeat("not: {", d)+"propertyConstraints: {core.name: {minCount: 1}}"+strings.Repeat("}", d)+"\n", okData)
	}
	for k, d := range sourceMapHostile() {
		// a profile that reports the target nodes, so locations are looked up
		_ = k
		emit("hostile-sourcemap", okProfile, d)
	}
	target := id + n // n random cases on top of the fixed families
	for id < target {
		p := profiles[g.n(len(profiles))]
		d := datas[g.n(len(datas))]
		switch g.n(4) {
		case 0:
			emit("mut-profile", g.mutate(p), okData)
		case 1:
			emit("mut-data", okProfile, g.mutate(d))
		case 2:
			emit("mut-both", g.mutate(p), g.mutate(d))
		default:
			raw := make([]byte, g.n(64))
			for i := range raw {
				raw[i] = byte(g.n(256))
			}
			if g.coin(0.5) {
				emitRaw("raw-profile", raw, nil)
			} else {
				emitRaw("raw-data", nil, raw)
			}
		}
	}
}

// badIriData: IRI references no URL parser accepts (bad percent escapes, missing scheme before the colon, unbalanced
// brackets, control characters), at every position an IRI can stand, with and without a base IRI to resolve against
func badIriData() []string {
	bad := []string{"%xsd:boolean", "%", "%zz", "http://[::1", "http://a b/", ":foo", "http://a/\u007f", "http://a/%", "#%", "?%gg", "//[", "1http:", "http://h:port/", "a%2", "\u0000"}
	var out []string
	for _, b := range bad {
		q := "\"" + b + "\""
		for _, ctx := range []string{`"@context":{"@base":"amf://id#"},`, ``, `"@context":{"@vocab":"http://v/","@base":"http://h/p/"},`} {
			out = append(out,
				`{`+ctx+`"@id":`+q+`,"@type":"http://ex.org/v#T"}`,
				`{`+ctx+`"@id":"http://a","@type":"http://ex.org/v#T","http://ex.org/v#p0":{"@id":`+q+`}}`,
				`{`+ctx+`"@id":"http://a","@type":`+q+`}`,
				`{`+ctx+`"@id":"http://a","@type":"http://ex.org/v#T",`+q+`:1}`,
				`{`+ctx+`"@graph":[{"@id":"http://a","http://ex.org/v#p0":{"@value":"x","@type":`+q+`}}]}`)
		}
		out = append(out, `{"@context":{"@base":`+q+`},"@id":"x","@type":"http://ex.org/v#T"}`, `{"@context":{"t":{"@id":`+q+`}},"@id":"http://a","t":1}`, `{"@context":{"@vocab":`+q+`},"@id":"http://a","t":1}`)
	}
	return out
}

// messages around the placeholder syntax: unterminated, empty, nested, repeated and stray braces, placeholders that are not
// prefix.name, a very long text - and the same texts as profile name, description and validation name
func init() {
	texts := []string{"{{", "the template syntax is {{ prefix.name", "a {{ex.p0}} b {{", "}}{{", "{{}}", "{{{{", "}}", "{{ex.p0}} {{", "{{ {{ex.p0}} }}", "{{ex.p0}}{{ex.p0}}{{ex.p0",
		"{{ex}}", "{{.}}", "{{ex.p0 }} {{ ex.p0}} {{\tex.p0\t}}", "{{ex.p0\n}}", "{ {ex.p0} }", "%{{ex.p0}}%", "{{ex.p0}}%d%s%v", strings.Repeat("{{", 500), strings.Repeat("{{ex.p0}} ", 300) + "{{", "{{" + strings.Repeat("x", 5000)}
	for _, t := range texts {
		hostileProfiles = append(hostileProfiles,
			strings.Replace(okProfile, "message: m", "message: "+yq(t), 1),
			strings.Replace(okProfile, "profile: ", "description: "+yq(t)+"\nprofile: ", 1),
			strings.Replace(strings.Replace(okProfile, "  - v\n", "  - "+yq(t)+"\n", 1), "  v:\n", "  "+yq(t)+":\n", 1))
	}
}
