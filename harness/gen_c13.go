package main

import (
	"encoding/json"
	"io"
	"strings"
)

type C13Case struct {
	Op       string      `json:"op"`
	Id       int         `json:"id"`
	Name     string      `json:"name"`
	VName    string      `json:"vname"`
	Message  string      `json:"message"`
	Values   [][2]string `json:"values"` // placeholder variable -> value on the focus node
	ListVals []string    `json:"listvals"`
	Kind     string      `json:"kind"` // in | containsAll | containsSome
	// set when an embedded-Rego alternative of the same failure branch defines the message itself ($message)
	CustomMessage string `json:"customMessage,omitempty"`
	// set when the constraint stands next to a twin in an `and`: the same kind on the same property over a list whose values,
	// joined by commas, read the same ("x,y" against "x", "y"); node n2 fails the twin, so both nodes are reported
	Twin bool `json:"twin,omitempty"`
	Profile  string      `json:"profile"`
	Data     string      `json:"data"`
}

var hostilePieces = []string{"\"", "'", "\\", "%", "%v", "%d", "%%", "%s", "{", "}", "{{", "}}", "\n", "\t", "`", "$", "$message", "é", "😀", " ", "and", "warning",
	"rego", "message", "x", "A", "0", "_", "-", ".", "#", ":", "\\n", "\\\"", " ", "\u0001", "\u007f", "/", "|", "[", "]", ",", "null", "true",
	// code points scanners and serialisers single out: byte-order mark, no-break space, bidi override, line/paragraph separators, NEL,
	// zero-width space, the replacement character, the last BMP code point, astral letters (need surrogate pairs in \u escapes)
	"\ufeff", "\u00a0", "\u202e", "\u2028", "\u2029", "\u0085", "\u200b", "\ufffd", "\uffff", "\U0001d4d0", "\U00010380", "\U000e0067", "\U0010ffff"}

func (g *G) hostile(maxPieces int) string {
	var b strings.Builder
	k := g.n(maxPieces + 1)
	for i := 0; i < k; i++ {
		b.WriteString(g.pick(hostilePieces))
	}
	return b.String()
}

func genC13(g *G, n int, out io.Writer) {
	enc := json.NewEncoder(out)
	for i := 0; i < n; i++ {
		c := C13Case{Op: "c13", Id: i}
		c.Name = "P" + g.hostile(5)
		c.VName = "v" + g.hostile(4)
		// message: literal pieces and 0..3 placeholders
		vars := []string{"ex.p1", "ex.p2", "ex.missing", "nope.p1", "ex.p-1", "ex_2.p1", "core.name"} // (core: a built-in alias the profile does not declare)
		var mb strings.Builder
		np := g.n(4)
		for k := 0; k <= np; k++ {
			mb.WriteString(g.hostile(4))
			if k < np {
				v := g.pick(vars)
				mb.WriteString("{{" + g.pick([]string{"", " ", "\t "}) + v + g.pick([]string{"", " ", "  "}) + "}}")
			}
		}
		if g.coin(0.15) {
			mb.WriteString(g.pick([]string{"{{ex.p1", "{{ ex . p1 }}", "{ {ex.p1}}", "{{ex.p1} }", "{{.p1}}", "{{ex.}}", "{{{ex.p1}}}"}))
		}
		c.Message = mb.String()
		v1, v2 := "val"+g.hostile(3), g.hostile(3)
		v3 := "core" + g.hostile(2)
		c.Values = [][2]string{{"ex.p1", v1}, {"ex.p2", v2}, {"ex_2.p1", v1}, {"core.name", v3}}
		// list constraint on ex.p0: node n1 has a value outside the list (reported), node n2 a hostile member (not reported)
		member := "m" + g.hostile(4)
		c.ListVals = []string{member, "k" + g.hostile(3), g.pick([]string{"plain", "a\"b", "c\\d", "%s", "e\nf"})}
		c.Kind = g.pick([]string{"in", "in", "containsAll", "containsSome"})
		var w yw
		w.line(0, "profile: "+yq(c.Name))
		w.line(0, "prefixes:")
		w.line(1, "ex: "+NS)
		w.line(1, "ex_2: "+NS)
		w.line(0, "violation:")
		w.line(1, "- "+yq(c.VName))
		w.line(0, "validations:")
		if i%4 == 1 {
			// a validation no level lists, defined FIRST, whose name differs from the listed one only in the case of its first letter:
			// names are compared as written, so it is ignored and the listed validation keeps its own message and constraints
			w.line(1, yq("V"+c.VName[1:])+":")
			w.line(2, "targetClass: ex.T")
			w.line(2, "message: \"message of another validation\"")
			w.line(2, "propertyConstraints:")
			w.line(3, "ex.p0:")
			w.line(4, "minCount: 7")
		}
		w.line(1, yq(c.VName)+":")
		w.line(2, "targetClass: ex.T")
		w.line(2, "message: "+yq(c.Message))
		var qs []string
		for _, v := range c.ListVals {
			qs = append(qs, yq(v))
		}
		if g.coin(0.3) {
			// the same constraint as one alternative of an `or` whose other alternative is an embedded-Rego constraint that never
			// holds: both land in one failure branch (one generated rule body), and the verdicts and messages are the same
			w.line(2, "or:")
			if g.coin(0.5) {
				w.line(3, "- rego: \"$result = (1 == 2)\"")
			}
			w.line(3, "- propertyConstraints:")
			w.line(5, "ex.p0:")
			w.line(6, c.Kind+": ["+strings.Join(qs, ", ")+"]")
			w.line(3, "- rego: |")
			w.line(5, "c13_never = 3")
			w.line(5, "$result = (c13_never == 4)")
			if g.coin(0.4) {
				// one alternative words the message itself; wherever it stands among the alternatives, its text is the message
				c.CustomMessage = "worded by the rule"
				line := "- rego: \"$message = \\\"worded by the rule\\\"; $result = (2 == 3)\""
				txt := w.b.String()
				if g.coin(0.5) {
					txt = strings.Replace(txt, "    or:\n", "    or:\n      "+line+"\n", 1)
					w.b.Reset()
					w.b.WriteString(txt)
				} else {
					w.line(3, line)
				}
			}
		} else if c.Kind == "in" && g.coin(0.3) {
			// twins: two `in` constraints on one property whose lists differ only in where a comma is a separator and where it is text
			c.Twin = true
			c.ListVals = append(c.ListVals, "x", "y")
			qs = append(qs, yq("x"), yq("y"))
			twin := append(append([]string{}, qs[:len(qs)-2]...), yq("x,y"))
			w.line(2, "and:")
			for _, l := range [][]string{qs, twin} {
				w.line(3, "- propertyConstraints:")
				w.line(5, "ex.p0:")
				w.line(6, "in: ["+strings.Join(l, ", ")+"]")
			}
		} else {
			w.line(2, "propertyConstraints:")
			w.line(3, "ex.p0:")
			w.line(4, c.Kind+": ["+strings.Join(qs, ", ")+"]")
		}
		c.Profile = w.b.String()
		gr := Graph{
			{Id: nodeId(1), Types: []string{NS + "T"}, Props: []Prop{{NS + "p0", []Val{VS("outside")}}, {NS + "p1", []Val{VS(v1)}}, {NS + "p2", []Val{VS(v2)}}, {AmlCoreNS + "name", []Val{VS(v3)}}}},
			{Id: nodeId(2), Types: []string{NS + "T"}, Props: []Prop{{NS + "p0", []Val{VS(member)}}}},
		}
		if c.Kind != "in" || c.Twin || g.coin(0.5) {
			// the second node holds every listed value (so it satisfies in, containsAll and containsSome alike)
			var all []Val
			seenV := map[string]bool{}
			for _, v := range c.ListVals {
				if !seenV[v] {
					seenV[v] = true
					all = append(all, VS(v))
				}
			}
			gr[1].Props[0].Vals = all
		}
		if v2 == "" {
			// an empty string is a value like any other
		}
		c.Data = gr.RenderFlat()
		enc.Encode(c)
	}
}
