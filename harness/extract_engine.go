package main

import (
	"sort"

	"github.com/aml-org/amf-custom-validator/pkg/verifhook"
	"github.com/open-policy-agent/opa/ast"
)

func engineTables() (keywords, builtins, deny []string) {
	seen := map[string]bool{}
	for _, k := range ast.Keywords {
		if !seen[k] {
			seen[k] = true
			keywords = append(keywords, k)
		}
	}
	// the preamble does `import future.keywords.{in,every,if,contains}`: these are keywords in generated modules
	for _, k := range []string{"in", "every", "if", "contains"} {
		if !seen[k] {
			seen[k] = true
			keywords = append(keywords, k)
		}
	}
	sort.Strings(keywords)
	for _, b := range ast.Builtins {
		builtins = append(builtins, b.Name)
	}
	sort.Strings(builtins)
	deny = verifhook.UnsafeBuiltins()
	return
}
