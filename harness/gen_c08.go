package main

import (
	"encoding/json"
	"fmt"
	"io"
	"sort"
	"strings"

	"github.com/open-policy-agent/opa/ast"
	"github.com/open-policy-agent/opa/types"
)

type C08Case struct {
	Op       string `json:"op"`
	Id       int    `json:"id"`
	Builtin  string `json:"builtin"`
	Position string `json:"position"`
	Syntax   string `json:"syntax"`
	Debug    bool   `json:"debug"`
	Flaw     string `json:"flaw,omitempty"`
	// which entry point receives the profile: "" = CompileProfile; "validate" = Validate; "validate-cfg" = ValidateWithConfiguration
	// under the report configuration RC (every combination of its fields is a different call path a caller can take)
	Via      string  `json:"via,omitempty"`
	RC       *caseRC `json:"rc,omitempty"`
	Profile  string  `json:"profile"`
	Data     string `json:"data"`
}

func sampleArg(t types.Type) string {
	switch x := t.(type) {
	case types.String:
		return `"a"`
	case types.Number:
		return "1"
	case types.Boolean:
		return "true"
	case types.Null:
		return "null"
	case *types.Array:
		return "[]"
	case *types.Object:
		return "{}"
	case *types.Set:
		return "set()"
	case types.Any:
		if len(x) > 0 {
			return sampleArg(x[0])
		}
		return "1"
	case *types.Function:
		return "1"
	}
	return "1"
}

func builtinCall(b *ast.Builtin) string {
	var args []string
	if b.Decl != nil {
		for _, a := range b.Decl.FuncArgs().Args {
			args = append(args, sampleArg(a))
		}
	}
	return fmt.Sprintf("%s(%s)", b.Name, strings.Join(args, ", "))
}

func indentBlock(s string, n int) string {
	pad := strings.Repeat(" ", n)
	lines := strings.Split(s, "\n")
	for i := range lines {
		lines[i] = pad + lines[i]
	}
	return strings.Join(lines, "\n")
}

// embed returns a profile that places `code` (Rego statements computing $result) at the given position
func embedRego(position, code, helper string) string {
	head := "profile: C08\nprefixes:\n  ex: " + NS + "\n"
	if helper != "" {
		head += "rego_extensions: |\n" + indentBlock(helper, 2) + "\n"
	}
	head += "violation:\n  - v\nvalidations:\n  v:\n    targetClass: ex.T\n    message: m\n"
	block := func(key string, ind int) string {
		return strings.Repeat(" ", ind) + key + ": |\n" + indentBlock(code, ind+2) + "\n"
	}
	ok := "propertyConstraints:\n%sex.p0:\n%s  minCount: 0\n"
	switch position {
	case "rego":
		return head + block("rego", 4)
	case "regoModule":
		return head + block("regoModule", 4)
	case "code-message":
		return head + "    rego:\n      message: custom\n" + block("code", 6)
	case "not":
		return head + "    not:\n" + block("rego", 6)
	case "and":
		return head + "    and:\n      - " + strings.TrimLeft(block("rego", 8), " ") + "      - " + fmt.Sprintf(ok, strings.Repeat(" ", 10), strings.Repeat(" ", 10))
	case "or":
		return head + "    or:\n      - " + fmt.Sprintf(ok, strings.Repeat(" ", 10), strings.Repeat(" ", 10)) + "      - " + strings.TrimLeft(block("rego", 8), " ")
	case "if":
		return head + "    if:\n" + block("rego", 6) + "    then:\n      " + fmt.Sprintf(ok, strings.Repeat(" ", 8), strings.Repeat(" ", 8))
	case "then":
		return head + "    if:\n      " + fmt.Sprintf(ok, strings.Repeat(" ", 8), strings.Repeat(" ", 8)) + "    then:\n" + block("rego", 6)
	case "else":
		return head + "    if:\n      " + fmt.Sprintf(ok, strings.Repeat(" ", 8), strings.Repeat(" ", 8)) + "    then:\n      " + fmt.Sprintf(ok, strings.Repeat(" ", 8), strings.Repeat(" ", 8)) + "    else:\n" + block("rego", 6)
	case "not-else":
		return head + "    not:\n      if:\n        " + fmt.Sprintf(ok, strings.Repeat(" ", 10), strings.Repeat(" ", 10)) + "      then:\n        " + fmt.Sprintf(ok, strings.Repeat(" ", 10), strings.Repeat(" ", 10)) + "      else:\n" + block("regoModule", 8)
	case "atMost":
		return head + "    propertyConstraints:\n      ex.p0:\n        atMost:\n          count: 1\n          validation:\n" + block("rego", 12)
	case "exactly":
		return head + "    propertyConstraints:\n      ex.p0:\n        exactly:\n          count: 1\n          validation:\n" + block("rego", 12)
	case "nested-or":
		return head + "    propertyConstraints:\n      ex.p0:\n        nested:\n          or:\n            - " + fmt.Sprintf(ok, strings.Repeat(" ", 16), strings.Repeat(" ", 16)) + "            - " + strings.TrimLeft(block("rego", 14), " ")
	case "warning-level":
		return strings.Replace(head, "violation:\n  - v", "warning:\n  - v", 1) + block("rego", 4)
	case "second-validation":
		// the first validation is purely declarative, the second one embeds Rego
		h2 := strings.Replace(head, "violation:\n  - v\n", "violation:\n  - decl\ninfo:\n  - v\n", 1)
		h2 = strings.Replace(h2, "validations:\n  v:", "validations:\n  decl:\n    targetClass: ex.T\n    message: m\n    "+fmt.Sprintf(ok, strings.Repeat(" ", 6), strings.Repeat(" ", 6))+"  v:", 1)
		return h2 + block("rego", 4)
	case "path-rego":
		return head + "    propertyConstraints:\n      ex.p0:\n" + block("rego", 8)
	case "nested":
		return head + "    propertyConstraints:\n      ex.p0:\n        nested:\n" + block("rego", 10)
	case "atLeast":
		return head + "    propertyConstraints:\n      ex.p0:\n        atLeast:\n          count: 1\n          validation:\n" + block("rego", 12)
	case "and-second-rego":
		// two native constraints on the same node in one conjunction; the first one is harmless
		return head + "    and:\n      - rego: |\n          $result = true\n      - " + strings.TrimLeft(block("rego", 8), " ")
	case "pc-rego-and-regoModule":
		return head + "    propertyConstraints:\n      ex.p0:\n        rego: |\n          $result = true\n" + block("regoModule", 8)
	case "or-many-rego":
		// several native alternatives, the offending one in the middle, plus a conjunction of two declarative clauses
		alt := "      - rego: |\n          $result = true\n"
		return head + "    or:\n" + alt + alt + "      - " + strings.TrimLeft(block("rego", 8), " ") + alt + alt +
			"      - and:\n          - " + fmt.Sprintf(ok, strings.Repeat(" ", 14), strings.Repeat(" ", 14)) + "          - propertyConstraints:\n              ex.p1:\n                minCount: 0\n"
	case "or-and-rego":
		// native alternatives, and a conjunction whose FIRST clause is the offending native constraint
		alt := "      - rego: |\n          $result = true\n"
		return head + "    or:\n" + alt + alt + alt + "      - and:\n          - " + strings.TrimLeft(block("rego", 12), " ") + "          - propertyConstraints:\n              ex.p1:\n                minCount: 0\n"
	case "or-and-rego2", "or-and-rego3":
		// ... the conjunction holds two native clauses, the offending one first / second
		alt := "      - rego: |\n          $result = true\n"
		bad := "          - " + strings.TrimLeft(block("rego", 12), " ")
		good := "          - rego: |\n              $result = count([1]) == 1\n"
		pair := bad + good
		if position == "or-and-rego3" {
			pair = good + bad
		}
		return head + "    or:\n" + alt + alt + alt + "      - and:\n" + pair
	case "comment-first-path":
		return head + "    propertyConstraints:\n      ex.p0:\n" + strings.Replace(block("rego", 8), "rego: |\n", "rego: |\n          # checks the upstream service\n", 1)
	case "comment-first-path-module":
		return head + "    propertyConstraints:\n      ex.p0:\n" + strings.Replace(block("regoModule", 8), "regoModule: |\n", "regoModule: |\n\n          # checks the upstream service\n", 1)
	case "comment-first":
		// the snippet starts with a comment line (and a blank one)
		return head + strings.Replace(block("rego", 4), "rego: |\n", "rego: |\n      # checks the upstream service\n\n", 1)
	case "extensions-only":
		// the helper is defined but never called from a validation
		return head + "    " + fmt.Sprintf(ok, strings.Repeat(" ", 6), strings.Repeat(" ", 6))
	}
	panic(position)
}

var c08Positions = []string{"rego", "regoModule", "code-message", "not", "and", "or", "if", "then", "else", "not-else", "path-rego", "nested", "nested-or", "atLeast", "atMost", "exactly", "warning-level", "second-validation", "helper", "extensions-only", "and-second-rego", "pc-rego-and-regoModule", "or-many-rego", "comment-first", "or-and-rego", "or-and-rego2", "or-and-rego3", "comment-first-path", "comment-first-path-module"}
var c08Flaws = map[string]string{
	"every-as-name": "every := count($node)", "in-as-name": "in = \"x\"", "if-as-name": "if := 1", "contains-as-name": "contains := 2",
	"syntax-error": "c08_bad ((", "type-error": "c08_t := 1 + \"a\"", "unknown-function": "c08_u := c08_nope(1)", "unsafe-var": "c08_z > 1",
	"unterminated-string": "c08_s := \"abc", "stray-brace": "}",
}

var c08Syntaxes = []string{"assign", "comprehension", "argument", "statement"}

func genC08(g *G, n int, out io.Writer, full bool) {
	enc := json.NewEncoder(out)
	var bs []*ast.Builtin
	bs = append(bs, ast.Builtins...)
	sort.Slice(bs, func(i, j int) bool { return bs[i].Name < bs[j].Name })
	forbidden := map[string]bool{"http.send": true, "net.lookup_ip_addr": true, "opa.runtime": true, "rego.parse_module": true, "walk": true}
	id := 0
	for _, b := range bs {
		for _, pos := range c08Positions {
			for _, syn := range c08Syntaxes {
				if !full && !forbidden[b.Name] && g.n(100) >= 6 {
					continue
				}
				call := builtinCall(b)
				var stmt string
				switch syn {
				case "assign":
					stmt = "c08_tmp := " + call
				case "comprehension":
					stmt = "c08_tmp := [c08_y | c08_y := " + call + "]"
				case "argument":
					stmt = "c08_tmp := is_null([" + call + "])"
				default:
					stmt = call
				}
				code := stmt + "\n$result = true"
				helper := ""
				p := pos
				if pos == "helper" || pos == "extensions-only" {
					helper = "c08_helper(c08_x) = c08_out {\n  " + stmt + "\n  c08_out := c08_x\n}"
					code = "$result = c08_helper(1) == 1"
					if pos == "helper" {
						p = "rego"
					}
				}
				prof := embedRego(p, code, helper)
				// the debug flag of the entry points is an input like any other: forbidden built-ins are tried under both values
				debugs := []bool{g.coin(0.5)}
				if forbidden[b.Name] {
					debugs = []bool{false, true}
				}
				for _, dbg := range debugs {
					enc.Encode(C08Case{Op: "c08", Id: id, Builtin: b.Name, Position: pos, Syntax: syn, Debug: dbg, Profile: prof, Data: "[]"})
					id++
				}
				if forbidden[b.Name] && (syn == "assign" || syn == "statement") && (pos == "rego" || pos == "helper" || pos == "nested" || pos == "code-message") {
					// the same profile handed to the validating entry points, under several report configurations
					enc.Encode(C08Case{Op: "c08", Id: id, Builtin: b.Name, Position: pos, Syntax: syn, Via: "validate", Profile: prof, Data: "[]"})
					id++
					for _, rc := range []caseRC{{"file:///dialects/validation-report.yaml", "file:///dialects/lexical.yaml", false, ""}, {"", "", true, ""}, {"http://x.org/r", "http://x.org/l", false, ""}} {
						r := rc
						enc.Encode(C08Case{Op: "c08", Id: id, Builtin: b.Name, Position: pos, Syntax: syn, Via: "validate-cfg", RC: &r, Profile: prof, Data: okData})
						id++
					}
				}
				if forbidden[b.Name] && syn == "assign" && b.Name != "walk" && b.Decl != nil {
					// the built-in is never CALLED by name: a `with` modifier binds it to another function of the same arity
					// (a built-in or a helper of rego_extensions); the replaced function then runs it
					ar := len(b.Decl.FuncArgs().Args)
					victim := map[int]string{0: "time.now_ns()", 1: "count([1])", 2: "concat(\"\", [])"}[ar]
					vname := map[int]string{0: "time.now_ns", 1: "count", 2: "concat"}[ar]
					if victim != "" {
						wcode := "c08_tmp := " + victim + " with " + vname + " as " + b.Name + "\n$result = true"
						whelper := helper
						if helper != "" {
							whelper = "c08_helper(c08_x) = c08_out {\n  c08_tmp := " + victim + " with " + vname + " as " + b.Name + "\n  c08_out := c08_x\n}"
							wcode = code
						}
						enc.Encode(C08Case{Op: "c08", Id: id, Builtin: b.Name, Position: pos, Syntax: "with-builtin", Flaw: "with-modifier", Profile: embedRego(p, wcode, whelper), Data: "[]"})
						id++
						if helper == "" {
							// ... or to a user function defined in rego_extensions
							args := []string{}
							for k := 0; k < ar; k++ {
								args = append(args, fmt.Sprintf("c08_a%d", k))
							}
							uh := "c08_user(" + strings.Join(args, ", ") + ") = 1 { true }"
							call := "c08_user(" + strings.Join(strings.Split(strings.Repeat("1", ar), ""), ", ") + ")"
							ucode := "c08_tmp := " + call + " with data.profile_c08.c08_user as " + b.Name + "\n$result = true"
							enc.Encode(C08Case{Op: "c08", Id: id, Builtin: b.Name, Position: pos, Syntax: "with-user-function", Flaw: "with-modifier", Profile: embedRego(p, ucode, uh), Data: "[]"})
							id++
						}
					}
				}
				if forbidden[b.Name] && (syn == "assign" || syn == "statement") {
					// the same embedding in a module that is objectionable for a second reason (names that are keywords under the
					// imported future keywords, syntax and type errors, unknown functions, unsafe variables, a clashing rule):
					// whatever the compiler says first, the profile must not come out accepted
					for fname, flaw := range c08Flaws {
						if !full && g.n(100) >= 45 {
							continue
						}
						fcode := flaw + "\n" + code
						fhelper := helper
						if helper != "" {
							fhelper = strings.Replace(helper, "{\n", "{\n  "+flaw+"\n", 1)
							fcode = code
						}
						enc.Encode(C08Case{Op: "c08", Id: id, Builtin: b.Name, Position: pos, Syntax: syn, Flaw: fname, Profile: embedRego(p, fcode, fhelper), Data: "[]"})
						id++
					}
				}
			}
		}
	}
}
