module verifharness

go 1.22.0

toolchain go1.23.5

require (
	github.com/aml-org/amf-custom-validator v0.0.0
	github.com/open-policy-agent/opa v0.47.0
)

require (
	golang.org/x/mod v0.22.0 // indirect
	golang.org/x/sync v0.10.0 // indirect
)

require (
	github.com/OneOfOne/xxhash v1.2.8 // indirect
	github.com/agnivade/levenshtein v1.1.1 // indirect
	github.com/ghodss/yaml v1.0.0 // indirect
	github.com/gobwas/glob v0.2.3 // indirect
	github.com/piprate/json-gold v0.4.0
	github.com/pkg/errors v0.9.1 // indirect
	github.com/pquerna/cachecontrol v0.0.0-20180517163645-1555304b9b35 // indirect
	github.com/rcrowley/go-metrics v0.0.0-20201227073835-cf1acfcdf475 // indirect
	github.com/tchap/go-patricia/v2 v2.3.1 // indirect
	github.com/xeipuuv/gojsonpointer v0.0.0-20190905194746-02993c407bfb // indirect
	github.com/xeipuuv/gojsonreference v0.0.0-20180127040603-bd5ef7bd5415 // indirect
	github.com/yashtewari/glob-intersection v0.1.0 // indirect
	golang.org/x/tools v0.29.0
	gopkg.in/yaml.v2 v2.4.0 // indirect
	gopkg.in/yaml.v3 v3.0.1
)

replace github.com/aml-org/amf-custom-validator => /repo
