package main

// Translator, part 2: the control-flow skeleton of the validation pipeline
// (Acv/Gen/Pipeline.lean), the event constants and the milestone switch.

import (
	"bytes"
	"fmt"
	"go/ast"
	"go/parser"
	"go/printer"
	"go/token"
	"os"
	"path/filepath"
	"sort"
	"strings"
)

type trackedFn struct {
	file string // relative to repo
	name string
	qual string // how other packages refer to it ("" = same package only)
}

// the functions whose bodies are translated; index = function id in the Lean program
var trackedFns = []trackedFn{
	{"pkg/validate.go", "Validate", "pkg"},
	{"pkg/validate.go", "ValidateCompiled", "pkg"},
	{"pkg/validate.go", "ValidateWithConfiguration", "pkg"},
	{"pkg/validate.go", "ValidateCompiledWithConfiguration", "pkg"},
	{"pkg/profile.go", "CompileProfile", "pkg"},
	{"internal/validator/validate.go", "Validate", "internal"},
	{"internal/validator/validate.go", "ValidateCompiled", "internal"},
	{"internal/validator/validate.go", "ValidateWithConfiguration", "internal"},
	{"internal/validator/validate.go", "ValidateCompiledWithConfiguration", "internal"},
	{"internal/validator/process_profile.go", "ProcessProfile", "internal"},
	{"internal/validator/process_profile.go", "GenerateRego", "internal"},
	{"internal/validator/process_profile.go", "CompileRego", "internal"},
	{"internal/validator/process_input.go", "ProcessInput", "internal"},
	{"internal/validator/validate.go", "executeValidation", "internal"},
	{"internal/validator/process_result.go", "processResult", "internal"},
	{"internal/validator/normalizer.go", "NormalizeOrError", "internal"},
}

type extStep struct {
	name   string // display name
	sel    string // final selector / identifier of the call
	recv   string // receiver/package text that must prefix it ("" = any)
	canErr bool
}

var extSteps = []extStep{
	{"parser.Parse", "Parse", "parser", true},
	{"generator.Generate", "Generate", "generator", false},
	{"rego.PrepareForEval", "PrepareForEval", "", true},
	{"json.Decoder.Decode", "Decode", "decoder", true},
	{"jsonld.Flatten", "Flatten", "proc", true},
	{"Index", "Index", "", false},
	{"rego.Eval", "Eval", "compiledRego", true},
	{"BuildReport", "BuildReport", "", true},
}

func exprText(fset *token.FileSet, e ast.Node) string {
	var b bytes.Buffer
	printer.Fprint(&b, fset, e)
	return b.String()
}

type pipeExtractor struct {
	fset    *token.FileSet
	pkgOf   string // "pkg" or "internal": package of the function being translated
	events  []string
	unknown map[string]bool
	opaque  []string
}

func (px *pipeExtractor) callee(call *ast.CallExpr) (string, bool) {
	// returns Lean callee term
	switch f := call.Fun.(type) {
	case *ast.Ident:
		for i, t := range trackedFns {
			if t.name == f.Name && t.qual == px.pkgOf {
				return fmt.Sprintf("(.fn %d)", i), true
			}
		}
		for i, x := range extSteps {
			if x.sel == f.Name && x.recv == "" {
				return fmt.Sprintf("(.ext %d)", i), true
			}
		}
	case *ast.SelectorExpr:
		recv := exprText(px.fset, f.X)
		if recv == "internal" {
			for i, t := range trackedFns {
				if t.name == f.Sel.Name && t.qual == "internal" {
					return fmt.Sprintf("(.fn %d)", i), true
				}
			}
		}
		for i, x := range extSteps {
			if x.sel == f.Sel.Name && (x.recv == "" || x.recv == recv) {
				return fmt.Sprintf("(.ext %d)", i), true
			}
		}
	}
	return "", false
}

func isNamed(e ast.Expr, name string) bool {
	id, ok := e.(*ast.Ident)
	return ok && id.Name == name
}

func (px *pipeExtractor) eventOf(call *ast.CallExpr) (int, bool) {
	// dispatchEvent(e.NewEvent(e.X), ch)
	if !isNamed(call.Fun, "dispatchEvent") || len(call.Args) != 2 {
		return 0, false
	}
	inner, ok := call.Args[0].(*ast.CallExpr)
	if !ok || len(inner.Args) != 1 {
		return 0, false
	}
	sel, ok := inner.Args[0].(*ast.SelectorExpr)
	if !ok {
		return 0, false
	}
	for i, n := range px.events {
		if n == sel.Sel.Name {
			return i, true
		}
	}
	return 0, false
}

func isCloseCall(fset *token.FileSet, call *ast.CallExpr) bool {
	t := exprText(fset, call.Fun)
	return t == "CloseEventChan" || t == "internal.CloseEventChan"
}

func (px *pipeExtractor) stmts(list []ast.Stmt) []string {
	var acc []string
	for _, s := range list {
		acc = append(acc, px.stmt(s)...)
	}
	return acc
}

func (px *pipeExtractor) note(call *ast.CallExpr) {
	px.unknown[exprText(px.fset, call.Fun)] = true
}

func (px *pipeExtractor) opaqueStmt(s ast.Node) []string {
	px.opaque = append(px.opaque, strings.SplitN(exprText(px.fset, s), "\n", 2)[0])
	return []string{".opaque"}
}

func lhsHasErr(lhs []ast.Expr) bool {
	for _, l := range lhs {
		if isNamed(l, "err") {
			return true
		}
	}
	return false
}

func (px *pipeExtractor) stmt(s ast.Stmt) []string {
	switch st := s.(type) {
	case *ast.ExprStmt:
		call, ok := st.X.(*ast.CallExpr)
		if !ok {
			return []string{".skip"}
		}
		if ev, ok := px.eventOf(call); ok {
			return []string{fmt.Sprintf(".emit %d", ev)}
		}
		if isCloseCall(px.fset, call) {
			return []string{".close"}
		}
		if c, ok := px.callee(call); ok {
			return []string{fmt.Sprintf(".bind %s false", c)}
		}
		px.note(call)
		return []string{".skip"}
	case *ast.AssignStmt:
		if len(st.Rhs) == 1 {
			if call, ok := st.Rhs[0].(*ast.CallExpr); ok {
				if c, ok := px.callee(call); ok {
					return []string{fmt.Sprintf(".bind %s %v", c, lhsHasErr(st.Lhs))}
				}
				px.note(call)
			}
		}
		return []string{".skip"}
	case *ast.DeclStmt:
		return []string{".skip"}
	case *ast.IfStmt:
		var acc []string
		if st.Init != nil {
			acc = append(acc, px.stmt(st.Init)...)
		}
		be, ok := st.Cond.(*ast.BinaryExpr)
		if !ok || be.Op != token.NEQ || !isNamed(be.X, "err") || !isNamed(be.Y, "nil") || st.Else != nil {
			return px.opaqueStmt(st)
		}
		body := px.stmts(st.Body.List)
		acc = append(acc, fmt.Sprintf(".ifErr [%s]", strings.Join(body, ", ")))
		return acc
	case *ast.ReturnStmt:
		if len(st.Results) == 1 {
			if call, ok := st.Results[0].(*ast.CallExpr); ok {
				if c, ok := px.callee(call); ok {
					return []string{fmt.Sprintf(".tail %s", c)}
				}
			}
			return px.opaqueStmt(st)
		}
		if len(st.Results) == 2 {
			last := st.Results[1]
			if isNamed(last, "err") {
				return []string{".retLast"}
			}
			if isNamed(last, "nil") {
				return []string{".retOk"}
			}
			if call, ok := last.(*ast.CallExpr); ok {
				t := exprText(px.fset, call.Fun)
				if t == "errors.New" || t == "fmt.Errorf" {
					return []string{".retFail"}
				}
			}
		}
		return px.opaqueStmt(st)
	case *ast.DeferStmt:
		if fl, ok := st.Call.Fun.(*ast.FuncLit); ok {
			hasRecover := false
			ast.Inspect(fl, func(n ast.Node) bool {
				if c, ok := n.(*ast.CallExpr); ok && isNamed(c.Fun, "recover") {
					hasRecover = true
				}
				return true
			})
			if hasRecover {
				return []string{".recoverGuard"}
			}
		}
		return px.opaqueStmt(st)
	}
	return px.opaqueStmt(s)
}

func extractEventNames(repo string) []string {
	fset := token.NewFileSet()
	f, err := parser.ParseFile(fset, repo+"/pkg/events/events.go", nil, 0)
	if err != nil {
		panic(err)
	}
	var names []string
	for _, d := range f.Decls {
		gd, ok := d.(*ast.GenDecl)
		if !ok || gd.Tok != token.CONST {
			continue
		}
		for _, sp := range gd.Specs {
			vs := sp.(*ast.ValueSpec)
			for _, n := range vs.Names {
				names = append(names, n.Name)
			}
		}
	}
	return names
}

// milestone switch: for each case of GenerateMilestonesFromEvents, which events it handles and how
func extractMilestones(repo string, events []string) (starts []int, dones [][2]int) {
	fset := token.NewFileSet()
	f, err := parser.ParseFile(fset, repo+"/pkg/milestones/milestones.go", nil, 0)
	if err != nil {
		panic(err)
	}
	idx := func(e ast.Expr) int {
		if sel, ok := e.(*ast.SelectorExpr); ok {
			for i, n := range events {
				if n == sel.Sel.Name {
					return i
				}
			}
		}
		return -1
	}
	ast.Inspect(f, func(n ast.Node) bool {
		cc, ok := n.(*ast.CaseClause)
		if !ok {
			return true
		}
		// start case: body is `startEvents[eventType] = event`
		isStart := false
		startOf := -1
		ast.Inspect(cc, func(m ast.Node) bool {
			if as, ok := m.(*ast.AssignStmt); ok && len(as.Lhs) == 1 {
				if ix, ok := as.Lhs[0].(*ast.IndexExpr); ok && exprText(fset, ix.X) == "startEvents" {
					isStart = true
				}
				if len(as.Rhs) == 1 {
					if ix, ok := as.Rhs[0].(*ast.IndexExpr); ok && exprText(fset, ix.X) == "startEvents" {
						startOf = idx(ix.Index)
					}
				}
			}
			return true
		})
		for _, e := range cc.List {
			i := idx(e)
			if i < 0 {
				continue
			}
			if isStart {
				starts = append(starts, i)
			} else if startOf >= 0 {
				dones = append(dones, [2]int{i, startOf})
			}
		}
		return true
	})
	sort.Ints(starts)
	return
}

func writePipeline(repo, outDir string, facts map[string]any) {
	events := extractEventNames(repo)
	unknown := map[string]bool{}
	var bodies []string
	var opaque []string
	for _, t := range trackedFns {
		fset := token.NewFileSet()
		f, err := parser.ParseFile(fset, repo+"/"+t.file, nil, 0)
		if err != nil {
			panic(err)
		}
		found := false
		for _, d := range f.Decls {
			fd, ok := d.(*ast.FuncDecl)
			if !ok || fd.Recv != nil || fd.Name.Name != t.name || fd.Body == nil {
				continue
			}
			px := &pipeExtractor{fset: fset, pkgOf: t.qual, events: events, unknown: unknown}
			body := px.stmts(fd.Body.List)
			bodies = append(bodies, "  ["+strings.Join(body, ", ")+"]")
			for _, o := range px.opaque {
				opaque = append(opaque, t.qual+"."+t.name+": "+o)
			}
			found = true
		}
		if !found {
			bodies = append(bodies, "  [.opaque]")
			opaque = append(opaque, t.qual+"."+t.name+": function not found in "+t.file)
		}
	}
	var unk []string
	for k := range unknown {
		unk = append(unk, k)
	}
	sort.Strings(unk)
	starts, dones := extractMilestones(repo, events)

	q := func(xs []string) string {
		var parts []string
		for _, x := range xs {
			parts = append(parts, leanStr(x))
		}
		return "[" + strings.Join(parts, ", ") + "]"
	}
	var b strings.Builder
	b.WriteString("import Acv.Model.Pipeline\n/-! GENERATED by `acvh extract` from pkg/*.go, internal/validator/*.go, pkg/events/events.go, pkg/milestones/milestones.go — do not edit -/\nnamespace Acv.Gen\nopen Acv.Pipe\n\n")
	fmt.Fprintf(&b, "def eventNames : List String := %s\n\n", q(events))
	var fnNames, extNames, canErr []string
	for _, t := range trackedFns {
		fnNames = append(fnNames, t.qual+"."+t.name)
	}
	for _, x := range extSteps {
		extNames = append(extNames, x.name)
		canErr = append(canErr, fmt.Sprint(x.canErr))
	}
	fmt.Fprintf(&b, "def funNames : List String := %s\n\n", q(fnNames))
	fmt.Fprintf(&b, "def extNames : List String := %s\n\n", q(extNames))
	fmt.Fprintf(&b, "def extCanErr : List Bool := [%s]\n\n", strings.Join(canErr, ", "))
	fmt.Fprintf(&b, "def pipeline : Prog := ⟨[\n%s\n]⟩\n\n", strings.Join(bodies, ",\n"))
	fmt.Fprintf(&b, "/-- calls inside the translated functions that are neither translated functions nor external steps (read as `skip`) -/\ndef otherCalls : List String := %s\n\n", q(unk))
	fmt.Fprintf(&b, "def opaqueStatements : List String := %s\n\n", q(opaque))
	// the two primitives every `emit` / `close` of the skeleton stands for: their bodies, printed from the syntax tree on one line
	prim := channelPrimitives(repo)
	fmt.Fprintf(&b, "/-- body of `dispatchEvent`: what an `emit` statement of the skeleton does -/\ndef dispatchBody : String := %s\n\n", leanStr(prim["dispatchEvent"]))
	fmt.Fprintf(&b, "/-- body of `CloseEventChan`: what a `close` statement of the skeleton does -/\ndef closeBody : String := %s\n\n", leanStr(prim["CloseEventChan"]))
	var ss []string
	for _, s := range starts {
		ss = append(ss, fmt.Sprint(s))
	}
	var ds []string
	for _, d := range dones {
		ds = append(ds, fmt.Sprintf("(%d, %d)", d[0], d[1]))
	}
	fmt.Fprintf(&b, "/-- events the milestone generator stores as stage starts -/\ndef milestoneStarts : List Nat := [%s]\n\n", strings.Join(ss, ", "))
	fmt.Fprintf(&b, "/-- (done event, start event it is paired with) for each milestone the generator emits -/\ndef milestoneDones : List (Nat × Nat) := [%s]\n\nend Acv.Gen\n", strings.Join(ds, ", "))
	if err := os.WriteFile(outDir+"/Pipeline.lean", []byte(b.String()), 0644); err != nil {
		panic(err)
	}
	facts["pipeline_other_calls"] = unk
	facts["pipeline_opaque"] = opaque
	facts["events"] = events
}

// channelPrimitives prints the parameter list and body of dispatchEvent and CloseEventChan (internal/validator/events.go)
// in a canonical one-line form
func channelPrimitives(repo string) map[string]string {
	out := map[string]string{"dispatchEvent": "<not found>", "CloseEventChan": "<not found>"}
	fset := token.NewFileSet()
	f, err := parser.ParseFile(fset, filepath.Join(repo, "internal", "validator", "events.go"), nil, 0)
	if err != nil {
		return out
	}
	for _, d := range f.Decls {
		fd, ok := d.(*ast.FuncDecl)
		if !ok || fd.Body == nil {
			continue
		}
		if _, want := out[fd.Name.Name]; !want {
			continue
		}
		var sb strings.Builder
		printer.Fprint(&sb, fset, fd.Type.Params)
		sb.WriteString(" ")
		printer.Fprint(&sb, fset, fd.Body)
		out[fd.Name.Name] = strings.Join(strings.Fields(sb.String()), " ")
	}
	return out
}
