package main

import (
	"encoding/json"
	"fmt"
	"io"
)

// "hist" cases: one profile, a history of data documents run through ONE compiled profile.
type HistCase struct {
	Op      string   `json:"op"`
	Id      int      `json:"id"`
	Profile string   `json:"profile"`
	Docs    []string `json:"docs"`
	Kinds   []string `json:"kinds"`
}

func genHist(g *G, n int, out io.Writer) {
	enc := json.NewEncoder(out)
	maxBranches = 8
	for i := 0; i < n; i++ {
		c := genC01Graph(g, i, g.coin(0.5))
		prof := ProfileSpec{Name: fmt.Sprintf("hist_%d", i), Atoms: c.Atoms, Paths: c.Paths, Validations: c.Validations}
		// spread validations over the three levels
		for k := range prof.Validations {
			prof.Validations[k].Level = []string{"violation", "warning", "info"}[g.n(3)]
		}
		h := HistCase{Op: "hist", Id: i, Profile: prof.Render()}
		var pool []string
		var kinds []string
		for k := 0; k < 3; k++ {
			pool = append(pool, g.graph(2+g.n(5), 0.4).RenderFlat())
			kinds = append(kinds, "graph")
		}
		pool = append(pool, "[]", "{\"@id\":\"http://a\",\"@type\":5}", "{ not json", "")
		kinds = append(kinds, "empty", "jsonld-reject", "undecodable", "empty-text")
		length := 4 + g.n(6)
		for k := 0; k < length; k++ {
			j := g.n(len(pool))
			h.Docs = append(h.Docs, pool[j])
			h.Kinds = append(h.Kinds, kinds[j])
		}
		enc.Encode(h)
	}
}
