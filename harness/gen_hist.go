package main

import (
	"encoding/json"
	"fmt"
	"io"
	"strings"
)

// "hist" cases: one profile, a history of data documents run through ONE compiled profile.
type HistCase struct {
	Op      string   `json:"op"`
	Id      int      `json:"id"`
	Profile string   `json:"profile"`
	Docs    []string `json:"docs"`
	Kinds   []string `json:"kinds"`
}

func genHist(g *G, n int, out io.Writer) {
	enc := json.NewEncoder(out)
	maxBranches = 8
	for i := 0; i < n; i++ {
		c := genC01Graph(g, i, g.coin(0.5))
		prof := ProfileSpec{Name: fmt.Sprintf("hist_%d", i), Atoms: c.Atoms, Paths: c.Paths, Validations: c.Validations}
		// spread validations over the three levels
		for k := range prof.Validations {
			prof.Validations[k].Level = []string{"violation", "warning", "info"}[g.n(3)]
		}
		h := HistCase{Op: "hist", Id: i, Profile: prof.Render()}
		var pool []string
		var kinds []string
		for k := 0; k < 3; k++ {
			pool = append(pool, g.graph(2+g.n(5), 0.4).RenderFlat())
			kinds = append(kinds, "graph")
		}
		// lexical documents: with source information (root location), and with source maps only
		lex := func(withInfo bool, root string) string {
			nodes := []map[string]any{
				{"@id": nodeId(900), "@type": []string{NS + "T"}},
				{"@id": nodeId(901), "@type": []string{SM + "SourceMap"}, SM + "lexical": []any{map[string]any{"@id": nodeId(902)}}},
				{"@id": nodeId(902), SM + "element": nodeId(900), SM + "value": fmt.Sprintf("[(%d,1)-(%d,9)]", 1+g.n(50), 60+g.n(50))},
			}
			if withInfo {
				nodes = append(nodes, map[string]any{"@id": nodeId(903), "@type": []string{DOC + "BaseUnitSourceInformation"}, DOC + "rootLocation": root})
			}
			b, _ := json.Marshal(nodes)
			return string(b)
		}
		pool = append(pool, lex(true, "file:///first.raml"), lex(false, ""), lex(true, "file:///second.raml"), lex(false, ""))
		kinds = append(kinds, "lexical-info", "lexical-noinfo", "lexical-info", "lexical-noinfo")
		pool = append(pool, "[]", "{\"@id\":\"http://a\",\"@type\":5}", "{ not json", "")
		kinds = append(kinds, "empty", "jsonld-reject", "undecodable", "empty-text")
		// long unreadable documents whose tail, read on its own, would be a JSON value; and blank/truncated ones
		long1 := "{\"a\": tru" + strings.Repeat(" ", 300+g.n(900)) + "[]" + strings.Repeat(" ", g.n(700)) + " {} "
		long2 := "#%RAML 1.0\ntitle: api\n" + strings.Repeat("# padding line\n", 30+g.n(80)) + "example: {\"@id\": \"http://x\"}\n" + strings.Repeat("x", g.n(900)) + "\n[]\n"
		pool = append(pool, long1, long2, "   \n ", "[{\"@id\":\"http://a\", ")
		kinds = append(kinds, "undecodable", "undecodable", "empty-text", "undecodable")
		length := 4 + g.n(6)
		for k := 0; k < length; k++ {
			j := g.n(len(pool))
			h.Docs = append(h.Docs, pool[j])
			h.Kinds = append(h.Kinds, kinds[j])
		}
		enc.Encode(h)
	}
}
