package main

import (
	"encoding/json"
	"fmt"
	"github.com/aml-org/amf-custom-validator/pkg/config"
	"io"
	"strings"
)

// "hist" cases: one profile, a history of data documents run through ONE compiled profile.
type HistCase struct {
	Op      string   `json:"op"`
	Id      int      `json:"id"`
	Profile string   `json:"profile"`
	Docs    []string `json:"docs"`
	Kinds   []string `json:"kinds"`
	// other profiles handled by the process between the documents of the history (their verdicts are not looked at):
	// what one compiled profile answers must not depend on which other profiles the process has seen
	Interfere []string `json:"interfere,omitempty"`
	// report configuration per position (nil = the default one)
	RCs []*caseRC `json:"rcs,omitempty"`
	// context documents (file name -> text) written BEFORE the position is validated; a document refers to one as
	// "@context": "__CTX__/<file name>" (the runner puts a directory of its own there).  What a document means is what the
	// referenced context says at the time of the call
	Ctx []map[string]string `json:"ctx,omitempty"`
}

const amlCore = "http://a.ml/vocabularies/core#"
const amlApi = "http://a.ml/vocabularies/apiContract#"

// profiles that rebind built-in aliases, declare aliases other profiles leave to the defaults, or reuse `ex` for another namespace
func interferingProfiles(g *G) []string {
	var out []string
	bindings := [][2]string{{"core", NS}, {"apiContract", NS}, {"ex", amlCore}, {"ex", "http://other.org/v#"}, {"shacl", NS}, {"doc", NS}, {"zz", NS}, {"core", amlApi}}
	k := 1 + g.n(3)
	for i := 0; i < k; i++ {
		var w yw
		w.line(0, fmt.Sprintf("profile: other_%d", i))
		w.line(0, "prefixes:")
		seen := map[string]bool{}
		for j := 0; j < 1+g.n(3); j++ {
			b := bindings[g.n(len(bindings))]
			if !seen[b[0]] {
				seen[b[0]] = true
				w.line(1, b[0]+": "+b[1])
			}
		}
		var first string
		for a := range seen {
			if first == "" || a < first {
				first = a
			}
		}
		w.line(0, "violation:")
		w.line(1, "- o")
		w.line(0, "validations:")
		w.line(1, "o:")
		w.line(2, "targetClass: "+first+".T")
		w.line(2, "message: other")
		w.line(2, "propertyConstraints:")
		w.line(3, first+".p0:")
		w.line(4, "minCount: 1")
		out = append(out, w.b.String())
	}
	return out
}

// a profile that leaves `core` and `apiContract` to the built-in defaults, with data in those namespaces
func defaultsProfile(g *G, i int) (string, []string) {
	var w yw
	w.line(0, fmt.Sprintf("profile: hist_defaults_%d", i))
	if g.coin(0.5) {
		w.line(0, "prefixes:")
		w.line(1, "ex: "+NS)
	}
	w.line(0, "violation:")
	w.line(1, "- named")
	w.line(0, "warning:")
	w.line(1, "- pathed")
	w.line(0, "validations:")
	w.line(1, "named:")
	w.line(2, "targetClass: apiContract.EndPoint")
	w.line(2, "message: end points have a name")
	w.line(2, "propertyConstraints:")
	w.line(3, "core.name:")
	w.line(4, "minCount: 1")
	w.line(1, "pathed:")
	w.line(2, "targetClass: apiContract.EndPoint")
	w.line(2, "message: end points have a path")
	w.line(2, "propertyConstraints:")
	w.line(3, "apiContract.path:")
	w.line(4, fmt.Sprintf("minCount: %d", 1+g.n(2)))
	var docs []string
	for d := 0; d < 3; d++ {
		var nodes []map[string]any
		for k := 0; k < 1+g.n(4); k++ {
			n := map[string]any{"@id": nodeId(k), "@type": []string{amlApi + "EndPoint"}}
			if g.coin(0.6) {
				n[amlCore+"name"] = "n"
			}
			if g.coin(0.6) {
				n[amlApi+"path"] = "/p"
			}
			if g.coin(0.3) {
				n[NS+"name"] = "decoy"
			}
			nodes = append(nodes, n)
		}
		b, _ := json.Marshal(nodes)
		docs = append(docs, string(b))
	}
	return w.b.String(), docs
}

func genHist(g *G, n int, out io.Writer) {
	enc := json.NewEncoder(out)
	maxBranches = 8
	for i := 0; i < n; i++ {
		c := genC01Graph(g, i, g.coin(0.5))
		prof := ProfileSpec{Name: fmt.Sprintf("hist_%d", i), Atoms: c.Atoms, Paths: c.Paths, Validations: c.Validations}
		// spread validations over the three levels
		for k := range prof.Validations {
			prof.Validations[k].Level = []string{"violation", "warning", "info"}[g.n(3)]
		}
		h := HistCase{Op: "hist", Id: i, Profile: prof.Render()}
		var pool []string
		var kinds []string
		for k := 0; k < 3; k++ {
			pool = append(pool, g.graph(2+g.n(5), 0.4).RenderFlat())
			kinds = append(kinds, "graph")
		}
		// near-identical documents: the first graph again with white space put INTO one of its string values, with a number respelt,
		// with its top-level nodes in the opposite order - documents that differ, however little, are different documents
		var nearCopies [][2]string
		lexicalOnly := false
		for _, d := range pool[:1] {
			for _, v := range []string{strings.Replace(d, `"cc"`, `"c c"`, 1), strings.Replace(d, `"ddd"`, `"d\tdd"`, 1), strings.Replace(d, `"true"`, `" true"`, 1), strings.Replace(d, `:[1`, `:[10`, 1),
				// (a blank inside a class IRI or a node id: another class, another node - every report about that node shows it)
				strings.Replace(d, `"`+NS+`T"`, `"`+NS+`T "`, 1), strings.Replace(d, `"@id":"`+nodeId(0)+`"`, `"@id":"`+nodeId(0)+` "`, 1), strings.Replace(d, `"`+NS+`U"`, `"`+NS+` U"`, 1)} {
				if v != d {
					pool = append(pool, v, d)
					kinds = append(kinds, "graph-near-copy", "graph")
					nearCopies = append(nearCopies, [2]string{v, d})
				}
			}
		}
		if i%3 == 1 {
			h.Interfere = interferingProfiles(g)
		}
		if i%6 == 4 {
			var docs []string
			h.Profile, docs = defaultsProfile(g, i)
			h.Interfere = interferingProfiles(g)
			for _, d := range docs {
				pool = append(pool, d, d)
				kinds = append(kinds, "graph-defaults", "graph-defaults")
			}
		}
		// lexical documents: with source information (root location), and with source maps only
		lex := func(withInfo bool, root string) string {
			nodes := []map[string]any{
				{"@id": nodeId(900), "@type": []string{NS + "T"}},
				{"@id": nodeId(901), "@type": []string{SM + "SourceMap"}, SM + "lexical": []any{map[string]any{"@id": nodeId(902)}}},
				{"@id": nodeId(902), SM + "element": nodeId(900), SM + "value": fmt.Sprintf("[(%d,1)-(%d,9)]", 1+g.n(50), 60+g.n(50))},
			}
			if withInfo {
				nodes = append(nodes, map[string]any{"@id": nodeId(903), "@type": []string{DOC + "BaseUnitSourceInformation"}, DOC + "rootLocation": root})
			}
			b, _ := json.Marshal(nodes)
			return string(b)
		}
		pool = append(pool, lex(true, "file:///first.raml"), lex(false, ""), lex(true, "file:///second.raml"), lex(false, ""))
		kinds = append(kinds, "lexical-info", "lexical-noinfo", "lexical-info", "lexical-noinfo")
		// source information with TWO additional locations that list the same node ids the other lexical documents use
		{
			nodes := []map[string]any{
				{"@id": nodeId(900), "@type": []string{NS + "T"}},
				{"@id": nodeId(901), "@type": []string{SM + "SourceMap"}, SM + "lexical": []any{map[string]any{"@id": nodeId(902)}}},
				{"@id": nodeId(902), SM + "element": nodeId(900), SM + "value": "[(7,1)-(8,2)]"},
				{"@id": nodeId(903), "@type": []string{DOC + "BaseUnitSourceInformation"}, DOC + "rootLocation": "file:///root-of-many.raml",
					DOC + "additionalLocations": []any{map[string]any{"@id": nodeId(904)}, map[string]any{"@id": nodeId(905)}}},
				{"@id": nodeId(904), DOC + "location": "file:///lib-a.raml", DOC + "elements": []any{map[string]any{"@id": nodeId(900)}}},
				{"@id": nodeId(905), DOC + "location": "file:///lib-b.raml", DOC + "elements": []any{map[string]any{"@id": nodeId(901)}}},
			}
			b, _ := json.Marshal(nodes)
			pool = append(pool, string(b), string(b))
			kinds = append(kinds, "lexical-two-locations", "lexical-two-locations")
		}
		if i%6 == 1 {
			// a profile that reports every T node, and a pool made of the lexical documents only: every report carries locations
			h.Profile = "profile: hist lexical\nprefixes:\n  ex: " + NS + "\nviolation:\n  - v\nvalidations:\n  v:\n    targetClass: ex.T\n    message: m\n    propertyConstraints:\n      ex.zz:\n        minCount: 1\n"
			var lp, lk []string
			for k := range pool {
				if strings.HasPrefix(kinds[k], "lexical") {
					lp, lk = append(lp, pool[k]), append(lk, kinds[k])
				}
			}
			pool, kinds = lp, lk
			lexicalOnly = true
		}
		pool = append(pool, "[]", "{\"@id\":\"http://a\",\"@type\":5}", "{ not json", "")
		kinds = append(kinds, "empty", "jsonld-reject", "undecodable", "empty-text")
		// a readable first value followed by more text (a second document, a stray bracket, padding): read like the first value alone
		pool = append(pool, pool[0]+"\n"+pool[1], pool[1]+" ]", pool[2]+"\x00", "[] trailing words")
		kinds = append(kinds, "graph-trailing", "graph-trailing", "graph-trailing", "graph-trailing")
		// long unreadable documents whose tail, read on its own, would be a JSON value; and blank/truncated ones
		long1 := "{\"a\": tru" + strings.Repeat(" ", 300+g.n(900)) + "[]" + strings.Repeat(" ", g.n(700)) + " {} "
		long2 := "#%RAML 1.0\ntitle: api\n" + strings.Repeat("# padding line\n", 30+g.n(80)) + "example: {\"@id\": \"http://x\"}\n" + strings.Repeat("x", g.n(900)) + "\n[]\n"
		pool = append(pool, long1, long2, "   \n ", "[{\"@id\":\"http://a\", ")
		kinds = append(kinds, "undecodable", "undecodable", "empty-text", "undecodable")
		length := 4 + g.n(6)
		for k := 0; k < length; k++ {
			j := g.n(len(pool))
			h.Docs = append(h.Docs, pool[j])
			h.Kinds = append(h.Kinds, kinds[j])
		}
		if lexicalOnly {
			// ... and one of each kind right at the start, in a rotating order (with and without source information, one and two locations)
			var first []int
			for _, want := range [][]string{{"lexical-info", "lexical-noinfo", "lexical-two-locations"}, {"lexical-two-locations", "lexical-noinfo", "lexical-info"}, {"lexical-noinfo", "lexical-info", "lexical-noinfo"}}[(i/6)%3] {
				for k := range kinds {
					if kinds[k] == want {
						first = append(first, k)
						break
					}
				}
			}
			var d, kk []string
			for _, k := range first {
				d, kk = append(d, pool[k]), append(kk, kinds[k])
			}
			h.Docs, h.Kinds = append(d, h.Docs...), append(kk, h.Kinds...)
		}
		if len(nearCopies) > 0 && i%6 != 1 {
			// ... one right after the other, somewhere in the history (near copy first, then the original, then the near copy again)
			nc := nearCopies[g.n(len(nearCopies))]
			at := g.n(len(h.Docs) + 1)
			h.Docs = append(h.Docs[:at], append([]string{nc[0], nc[1], nc[0]}, h.Docs[at:]...)...)
			h.Kinds = append(h.Kinds[:at], append([]string{"graph-near-copy", "graph", "graph-near-copy"}, h.Kinds[at:]...)...)
		}
		if i%6 == 3 || i%6 == 1 && g.coin(0.5) {
			// the caller's report configuration varies from call to call (configurations that agree in some fields)
			def := config.DefaultReportConfiguration()
			variants := []*caseRC{nil, {def.ReportSchemaIri, "http://tenant-b.example.org/lexical-2.yaml", true, ""}, {def.ReportSchemaIri, def.LexicalSchemaIri, false, ""},
				{"http://tenant-b.example.org/report-2.yaml", def.LexicalSchemaIri, true, ""}}
			for range h.Docs {
				h.RCs = append(h.RCs, variants[g.n(len(variants))])
			}
			if i%6 == 3 {
				h.Profile = "profile: hist configurations\nprefixes:\n  ex: " + NS + "\nviolation:\n  - v\nvalidations:\n  v:\n    targetClass: ex.T\n    message: m\n    propertyConstraints:\n      ex.zz:\n        minCount: 1\n"
			}
		}
		if i%6 == 5 {
			genHistCtx(g, &h)
		}
		enc.Encode(h)
	}
}

// a history over documents whose @context is a REFERENCE to a context document that is revised between the calls
func genHistCtx(g *G, h *HistCase) {
	h.Profile = "profile: hist referenced contexts\nprefixes:\n  ex: " + NS + "\nviolation:\n  - named\nwarning:\n  - labelled\nvalidations:\n  named:\n    targetClass: ex.T\n    message: a T has a name\n    propertyConstraints:\n      ex.name:\n        minCount: 1\n  labelled:\n    targetClass: ex.T\n    message: a T has no label\n    propertyConstraints:\n      ex.label:\n        maxCount: 0\n"
	h.Interfere = nil
	h.RCs = nil
	versions := []string{
		`{"@context":{"T":"` + NS + `T","name":"` + NS + `name","label":"` + NS + `label"}}`,
		`{"@context":{"T":"` + NS + `T","name":"` + NS + `label","label":"` + NS + `name"}}`,
		`{"@context":{"T":"` + NS + `U","name":"` + NS + `name"}}`,
		`{"@context":{"@vocab":"` + NS + `"}}`,
	}
	files := []string{"a.jsonld", "b.jsonld"}
	docs := []string{}
	for _, f := range files {
		docs = append(docs,
			`{"@context":"__CTX__/`+f+`","@id":"http://ex.org/n/0","@type":"T","name":"x"}`,
			`{"@context":"__CTX__/`+f+`","@graph":[{"@id":"http://ex.org/n/0","@type":"T","label":"l"},{"@id":"http://ex.org/n/1","@type":"T","name":"y"}]}`)
	}
	// the same graphs with the context inline (first version): never affected by the files
	docs = append(docs, `{"@context":{"T":"`+NS+`T","name":"`+NS+`name"},"@id":"http://ex.org/n/0","@type":"T","name":"x"}`)
	h.Docs, h.Kinds, h.Ctx = nil, nil, nil
	length := 5 + g.n(5)
	for k := 0; k < length; k++ {
		w := map[string]string{}
		if k == 0 {
			for _, f := range files {
				w[f] = versions[g.n(len(versions))]
			}
		} else if g.coin(0.5) {
			w[files[g.n(len(files))]] = versions[g.n(len(versions))]
		}
		h.Ctx = append(h.Ctx, w)
		h.Docs = append(h.Docs, docs[g.n(len(docs))])
		h.Kinds = append(h.Kinds, "graph-context-file")
	}
}
