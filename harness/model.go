package main

// Abstract cases shared with the Lean driver, and their rendering to the texts the real code reads.

import (
	"encoding/json"
	"fmt"
	"sort"
	"strings"
)

const NS = "http://ex.org/v#"
const ApiExtNS = "http://a.ml/vocabularies/api-extension#"
const CustomDomainProps = "http://a.ml/vocabularies/document#customDomainProperties"
const ExtensionName = "http://a.ml/vocabularies/core#extensionName"
const NodeNS = "http://ex.org/n/"
const AmlCoreNS = "http://a.ml/vocabularies/core#"

type Val struct {
	S *string `json:"s,omitempty"`
	I *int64  `json:"i,omitempty"`
	B *bool   `json:"b,omitempty"`
	R *string `json:"r,omitempty"`
}

func VS(s string) Val { return Val{S: &s} }
func VI(i int64) Val  { return Val{I: &i} }
func VB(b bool) Val   { return Val{B: &b} }
func VR(r string) Val { return Val{R: &r} }

type Prop struct {
	Iri  string
	Vals []Val
}

func (p Prop) MarshalJSON() ([]byte, error) {
	vs := p.Vals
	if vs == nil {
		vs = []Val{}
	}
	return json.Marshal([]any{p.Iri, vs})
}

func (p *Prop) UnmarshalJSON(b []byte) error {
	var parts []json.RawMessage
	if err := json.Unmarshal(b, &parts); err != nil {
		return err
	}
	if len(parts) != 2 {
		return fmt.Errorf("prop: expected [iri, values]")
	}
	if err := json.Unmarshal(parts[0], &p.Iri); err != nil {
		return err
	}
	return json.Unmarshal(parts[1], &p.Vals)
}

type Node struct {
	Id    string   `json:"id"`
	Types []string `json:"types"`
	Props []Prop   `json:"props"`
}

type Graph []Node

// Path: exactly one of P / Seq / Alt
type Path struct {
	P   *string `json:"p,omitempty"`
	Inv bool    `json:"inv,omitempty"`
	Seq []Path  `json:"seq,omitempty"`
	Alt []Path  `json:"alt,omitempty"`
}

func PP(local string, inv bool) Path { s := NS + local; return Path{P: &s, Inv: inv} }
func PType() Path                    { s := "@type"; return Path{P: &s} }

func PCustom(name string, inv bool) Path { s := ApiExtNS + name; return Path{P: &s, Inv: inv} }

func (p Path) local() string {
	if *p.P == "@type" {
		return "@type"
	}
	if strings.HasPrefix(*p.P, ApiExtNS) {
		return "apiExt." + strings.TrimPrefix(*p.P, ApiExtNS)
	}
	if strings.HasPrefix(*p.P, AmlCoreNS) {
		return "core." + strings.TrimPrefix(*p.P, AmlCoreNS) // a built-in alias the profile does not declare
	}
	for _, a := range altNamespaces {
		if strings.HasPrefix(*p.P, a.ns) {
			return a.alias + "." + strings.TrimPrefix(*p.P, a.ns)
		}
	}
	if strings.HasPrefix(*p.P, SchemelessNS) {
		return "sl." + strings.TrimPrefix(*p.P, SchemelessNS)
	}
	if strings.HasPrefix(*p.P, SchemelessNS2) {
		return "sl2." + strings.TrimPrefix(*p.P, SchemelessNS2)
	}
	return "ex." + strings.TrimPrefix(*p.P, NS)
}

// pathWhitespace: when set, the optional whitespace around `/` and `|` in rendered paths is drawn from it (blank, tab, line
// break, several blanks) instead of being one blank; the path means the same
var pathWhitespace func() string

func pathSep(op string) string {
	if pathWhitespace == nil {
		return " " + op + " "
	}
	return pathWhitespace() + op + pathWhitespace()
}

// Render as the profile language writes it. top=true: no parentheses needed.
// `|` binds tighter than `/`.
func (p Path) Render() string { return p.render(0) }

// ctx: 0 top / inside parens, 1 inside seq, 2 inside alt
func (p Path) render(ctx int) string {
	switch {
	case p.P != nil:
		s := p.local()
		if p.Inv {
			s += "^"
		}
		return s
	case p.Seq != nil:
		var parts []string
		for _, x := range p.Seq {
			parts = append(parts, x.render(1))
		}
		s := strings.Join(parts, pathSep("/"))
		if ctx != 0 {
			return "(" + s + ")"
		}
		return s
	default:
		var parts []string
		for _, x := range p.Alt {
			parts = append(parts, x.render(2))
		}
		s := strings.Join(parts, pathSep("|"))
		if ctx == 2 {
			return "(" + s + ")"
		}
		return s
	}
}

type Atom struct {
	Kind  string   `json:"kind"`
	Path  Path     `json:"path"`
	Arg   *int64   `json:"arg,omitempty"`
	Vals  []string `json:"vals,omitempty"`
	Other *Path    `json:"other,omitempty"`
	Dt    string   `json:"dt,omitempty"`
	// pattern: one of four shapes over literal text: ^lit$ / ^lit / lit$ / lit
	AnchorStart bool   `json:"anchorStart,omitempty"`
	AnchorEnd   bool   `json:"anchorEnd,omitempty"`
	Lit         string `json:"lit,omitempty"`
	// uniqueValues argument
	UArg *bool `json:"uarg,omitempty"`
}

func (a Atom) patternText() string {
	s := a.Lit
	if a.AnchorStart {
		s = "^" + s
	}
	if a.AnchorEnd {
		s += "$"
	}
	return s
}

type Quant struct {
	Op string `json:"op"`
	K  int    `json:"k"`
}

// Rule mirrors the YAML structure; the Lean decoder maps `not` to Negate().
type Rule struct {
	Atom   *int   `json:"atom,omitempty"`
	And    []Rule `json:"and,omitempty"`
	Or     []Rule `json:"or,omitempty"`
	Not    *Rule  `json:"not,omitempty"`
	If     *Rule  `json:"if,omitempty"`
	Then   *Rule  `json:"then,omitempty"`
	Else   *Rule  `json:"else,omitempty"`
	Nested *Rule  `json:"nested,omitempty"`
	PathIx *int   `json:"path,omitempty"`
	Q      *Quant `json:"q,omitempty"`
}

type Validation struct {
	Name    string `json:"name"`
	Class   string `json:"class"` // expanded IRI
	Rule    Rule   `json:"rule"`
	Level   string `json:"level,omitempty"`
	Message string `json:"message,omitempty"`
	// how the message key is written when it is not a plain string: "<absent>" (no key), or the raw YAML value
	// (empty = null, "~", "404", "true", "[a]" …): the documented fallback text applies
	RawMessage string `json:"rawMessage,omitempty"`
}

// ---------- YAML rendering ----------

type yw struct{ b strings.Builder }

func (w *yw) line(ind int, s string) {
	w.b.WriteString(strings.Repeat("  ", ind))
	w.b.WriteString(s)
	w.b.WriteString("\n")
}

func yq(s string) string {
	b, _ := json.Marshal(s) // a JSON string is a valid YAML double-quoted scalar …
	// … except that YAML wants DEL and the C1 controls escaped too
	var sb strings.Builder
	for _, r := range string(b) {
		if r == 0x7f || (r >= 0x80 && r <= 0x9f) || r == 0xfeff || r == 0xfffe || r == 0xffff {
			fmt.Fprintf(&sb, "\\u%04x", r)
		} else {
			sb.WriteRune(r)
		}
	}
	return sb.String()
}

func renderAtomConstraint(w *yw, ind int, a Atom) {
	switch a.Kind {
	case "minCount", "maxCount", "exactCount", "minLength", "maxLength", "exactLength",
		"minInclusive", "minExclusive", "maxInclusive", "maxExclusive":
		w.line(ind, fmt.Sprintf("%s: %d", a.Kind, *a.Arg))
	case "in", "containsAll", "containsSome":
		var qs []string
		for _, v := range a.Vals {
			qs = append(qs, yq(v))
		}
		w.line(ind, fmt.Sprintf("%s: [%s]", a.Kind, strings.Join(qs, ", ")))
	case "lessThanProperty", "lessThanOrEqualsToProperty", "equalsToProperty", "disjointWithProperty", "moreThanProperty", "moreThanOrEqualsToProperty":
		w.line(ind, fmt.Sprintf("%s: %s", a.Kind, yq(a.Other.Render())))
	case "datatype":
		w.line(ind, fmt.Sprintf("datatype: %s", yq(compactDt(a.Dt))))
	case "pattern":
		w.line(ind, fmt.Sprintf("pattern: %s", yq(a.patternText())))
	case "uniqueValues":
		w.line(ind, fmt.Sprintf("uniqueValues: %v", a.UArg == nil || *a.UArg))
	default:
		panic("atom kind " + a.Kind)
	}
}

func compactDt(dt string) string {
	const x = "http://www.w3.org/2001/XMLSchema#"
	if strings.HasPrefix(dt, x) {
		return "xsd." + strings.TrimPrefix(dt, x)
	}
	return dt
}

type renderCtx struct {
	atoms []Atom
	paths []Path
}

// renderRule writes the keys of one expression map at indentation ind.
func (c *renderCtx) renderRule(w *yw, ind int, r Rule) {
	switch {
	case r.Atom != nil:
		a := c.atoms[*r.Atom]
		w.line(ind, "propertyConstraints:")
		w.line(ind+1, yq(a.Path.Render())+":")
		renderAtomConstraint(w, ind+2, a)
	case r.And != nil:
		w.line(ind, "and:")
		for _, x := range r.And {
			c.renderItem(w, ind+1, x)
		}
	case r.Or != nil:
		w.line(ind, "or:")
		for _, x := range r.Or {
			c.renderItem(w, ind+1, x)
		}
	case r.Not != nil:
		w.line(ind, "not:")
		c.renderRule(w, ind+1, *r.Not)
	case r.If != nil:
		w.line(ind, "if:")
		c.renderRule(w, ind+1, *r.If)
		w.line(ind, "then:")
		c.renderRule(w, ind+1, *r.Then)
		if r.Else != nil {
			w.line(ind, "else:")
			c.renderRule(w, ind+1, *r.Else)
		}
	case r.Nested != nil:
		p := c.paths[*r.PathIx]
		w.line(ind, "propertyConstraints:")
		w.line(ind+1, yq(p.Render())+":")
		if r.Q == nil {
			w.line(ind+2, "nested:")
			c.renderRule(w, ind+3, *r.Nested)
		} else {
			key := map[string]string{"ge": "atLeast", "le": "atMost", "eq": "exactly"}[r.Q.Op]
			w.line(ind+2, key+":")
			w.line(ind+3, fmt.Sprintf("count: %d", r.Q.K))
			w.line(ind+3, "validation:")
			c.renderRule(w, ind+4, *r.Nested)
		}
	default:
		panic("empty rule")
	}
}

// list item: "- " then the map
func (c *renderCtx) renderItem(w *yw, ind int, r Rule) {
	var sub yw
	c.renderRule(&sub, ind+1, r)
	s := sub.b.String()
	// replace the first indentation by "- "
	prefix := strings.Repeat("  ", ind+1)
	s = strings.Repeat("  ", ind) + "- " + strings.TrimPrefix(s, prefix)
	w.b.WriteString(s)
}

type ProfileSpec struct {
	Name        string
	Atoms       []Atom
	Paths       []Path
	Validations []Validation
	// level lists; if nil every validation goes to its own Level (default violation)
	Levels map[string][]string
	// names listed under a level without an entry under `validations` (legal, ignored); used by the YAML tree emitter of gen_c15
	Dangling map[string][]string
	// atoms the YAML tree emitter writes as embedded Rego (gen_c15)
	RegoAtoms map[int]bool
	// further prefix declarations (alias -> namespace)
	Prefixes map[string]string
}

func compactClass(iri string) string { return "ex." + strings.TrimPrefix(iri, NS) }

func (p ProfileSpec) Render() string {
	var w yw
	w.line(0, "#%Validation Profile 1.0")
	w.line(0, "profile: "+yq(p.Name))
	w.line(0, "prefixes:")
	w.line(1, "ex: "+NS)
	w.line(1, "xsd: http://www.w3.org/2001/XMLSchema#")
	var extra []string
	for a := range p.Prefixes {
		extra = append(extra, a)
	}
	sort.Strings(extra)
	for _, a := range extra {
		w.line(1, a+": "+yq(p.Prefixes[a]))
	}
	levels := p.Levels
	if levels == nil {
		levels = map[string][]string{}
		for _, v := range p.Validations {
			l := v.Level
			if l == "" {
				l = "violation"
			}
			levels[l] = append(levels[l], v.Name)
		}
	}
	for _, l := range []string{"violation", "warning", "info"} {
		if names, ok := levels[l]; ok {
			w.line(0, l+":")
			for _, n := range names {
				w.line(1, "- "+yq(n))
			}
		}
	}
	if len(p.Validations) == 0 {
		w.line(0, "validations: {}")
	} else {
		w.line(0, "validations:")
	}
	c := &renderCtx{atoms: p.Atoms, paths: p.Paths}
	for _, v := range p.Validations {
		w.line(1, yq(v.Name)+":")
		w.line(2, "targetClass: "+compactClass(v.Class))
		msg := v.Message
		if msg == "" {
			msg = "failed " + v.Name
		}
		switch {
		case v.RawMessage == "<absent>":
		case v.RawMessage == "<null>":
			w.line(2, "message:")
		case v.RawMessage != "":
			w.line(2, "message: "+v.RawMessage)
		default:
			w.line(2, "message: "+yq(msg))
		}
		c.renderRule(&w, 2, v.Rule)
	}
	return w.b.String()
}

// ---------- JSON-LD rendering (flattened, absolute IRIs) ----------

func valJSON(v Val) any {
	switch {
	case v.S != nil:
		return *v.S
	case v.I != nil:
		return *v.I
	case v.B != nil:
		return *v.B
	default:
		return map[string]any{"@id": *v.R}
	}
}

func (g Graph) RenderFlat() string {
	var nodes []any
	for _, n := range g {
		o := map[string]any{"@id": n.Id}
		if len(n.Types) > 0 {
			o["@type"] = n.Types
		}
		for _, p := range n.Props {
			var vs []any
			for _, v := range p.Vals {
				vs = append(vs, valJSON(v))
			}
			o[p.Iri] = vs
		}
		nodes = append(nodes, o)
	}
	if nodes == nil {
		nodes = []any{}
	}
	b, _ := json.Marshal(nodes)
	return string(b)
}

// RenderSplit writes the same graph as a still context-free, still "flat" document, but one a JSON-LD processor has to work on:
// some nodes are described by TWO node objects with the same @id (the second at the end of the document, carrying the rest of the
// properties and sometimes the types), and the nodes sit under a lone "@graph" key. A JSON-LD processor merges node objects with
// one @id into one node, so the graph is the same one RenderFlat writes.
func (g Graph) RenderSplit(r *G) string {
	var nodes, tail []any
	for _, n := range g {
		o := map[string]any{"@id": n.Id}
		var o2 map[string]any
		if len(n.Props) >= 1 && r.coin(0.6) {
			o2 = map[string]any{"@id": n.Id}
		}
		typesLater := o2 != nil && len(n.Props) >= 2 && r.coin(0.4)
		if len(n.Types) > 0 {
			if typesLater {
				o2["@type"] = n.Types
			} else {
				o["@type"] = n.Types
			}
		}
		cut := len(n.Props)
		if o2 != nil {
			cut = r.n(len(n.Props)) // the FIRST object gets props[:cut] (possibly none), the later one the rest (at least one)
		}
		for k, p := range n.Props {
			var vs []any
			for _, v := range p.Vals {
				vs = append(vs, valJSON(v))
			}
			if k < cut {
				o[p.Iri] = vs
			} else {
				o2[p.Iri] = vs
			}
		}
		nodes = append(nodes, o)
		if o2 != nil {
			tail = append(tail, o2)
		}
	}
	nodes = append(nodes, tail...)
	if nodes == nil {
		nodes = []any{}
	}
	b, _ := json.Marshal(map[string]any{"@graph": nodes})
	return string(b)
}

// ---------- report reading ----------

type ReportView struct {
	Conforms    bool
	ProfileName string
	DateCreated *string
	HasResult   bool
	Results     []ResultView
	Raw         map[string]any
}

type ResultView struct {
	Severity string
	Shape    string
	Focus    string
	Message  string
	Raw      map[string]any
}

func ReadReport(text string) (*ReportView, error) {
	var doc []map[string]any
	if err := json.Unmarshal([]byte(text), &doc); err != nil {
		return nil, fmt.Errorf("report is not a JSON array: %v", err)
	}
	if len(doc) != 1 {
		return nil, fmt.Errorf("report has %d instances", len(doc))
	}
	enc, ok := doc[0]["doc:encodes"].([]any)
	if !ok || len(enc) != 1 {
		return nil, fmt.Errorf("doc:encodes malformed")
	}
	rep := enc[0].(map[string]any)
	rv := &ReportView{Raw: doc[0]}
	rv.Conforms, _ = rep["conforms"].(bool)
	rv.ProfileName, _ = rep["profileName"].(string)
	if d, ok := rep["dateCreated"].(string); ok {
		rv.DateCreated = &d
	}
	if rs, ok := rep["result"]; ok {
		rv.HasResult = true
		for _, r := range rs.([]any) {
			m := r.(map[string]any)
			x := ResultView{Raw: m}
			x.Severity, _ = m["resultSeverity"].(string)
			x.Shape, _ = m["sourceShapeName"].(string)
			x.Focus, _ = m["focusNode"].(string)
			x.Message, _ = m["resultMessage"].(string)
			rv.Results = append(rv.Results, x)
		}
	}
	return rv, nil
}

func (rv *ReportView) Pairs() []string {
	set := map[string]bool{}
	for _, r := range rv.Results {
		set[r.Shape+"|"+r.Focus] = true
	}
	acc := []string{}
	for k := range set {
		acc = append(acc, k)
	}
	sort.Strings(acc)
	return acc
}

// namespaces of other shapes, declared by the profile under these aliases (ProfileSpec.Prefixes): one that ends in neither `#`
// nor `/`, one that ends in `=`, and one bound to the NAME of a built-in alias (`apiExt`), which the profile's declaration overrides
var altNamespaces = []struct{ alias, ns string }{
	{"inv", "urn:example:inventory:"}, {"w_", "http://ex.org/w?k="}, {"apiExt", "http://ex.org/own-ext#"},
	// percent-encoded characters (legal in an IRI; a `%` is a verb to every formatting function)
	{"pc", "http://ex.org/caf%C3%A9#"}, {"sp", "http://ex.org/my%20vocab/%d%s/"},
}

// SchemelessNS: a namespace written without a scheme (alias `sl`).  A JSON-LD document cannot carry a predicate of it (a key that is
// not an absolute IRI is dropped), so constraints over it see no values; what they are called in the report is still their IRI
const SchemelessNS = "example.org/vocab/"

// ... and one whose first label is the name of a built-in prefix: an IRI of it reads like a compact IRI of that prefix
const SchemelessNS2 = "core.x/"

// moveToNs rewrites predicate NS+local to the namespace of altNamespaces[k] everywhere in the graph and the path
func moveToNs(gr Graph, p *Path, local string, k int) (alias, ns string) {
	moveIri(gr, p, NS+local, altNamespaces[k].ns+local)
	return altNamespaces[k].alias, altNamespaces[k].ns
}

func moveIri(gr Graph, p *Path, from, to string) {
	for i := range gr {
		for j := range gr[i].Props {
			if gr[i].Props[j].Iri == from {
				gr[i].Props[j].Iri = to
			}
		}
	}
	var walk func(q *Path)
	walk = func(q *Path) {
		if q.P != nil && *q.P == from {
			t := to
			q.P = &t
		}
		for k := range q.Seq {
			walk(&q.Seq[k])
		}
		for k := range q.Alt {
			walk(&q.Alt[k])
		}
	}
	walk(p)
}

// moveToCore rewrites predicate NS+local to the a.ml core namespace everywhere in the graph and the path, so that the profile
// reaches it through the built-in alias `core`, which it does not declare
func moveToCore(gr Graph, p *Path, local string) {
	from, to := NS+local, AmlCoreNS+local
	for i := range gr {
		for j := range gr[i].Props {
			if gr[i].Props[j].Iri == from {
				gr[i].Props[j].Iri = to
			}
		}
	}
	var walk func(q *Path)
	walk = func(q *Path) {
		if q.P != nil && *q.P == from {
			t := to
			q.P = &t
		}
		for k := range q.Seq {
			walk(&q.Seq[k])
		}
		for k := range q.Alt {
			walk(&q.Alt[k])
		}
	}
	walk(p)
}
