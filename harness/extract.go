package main

import (
	"encoding/json"
	"os"
)

// runExtract regenerates the Lean tables under outDir and a facts.json from the sources in repo.
func runExtract(repo, outDir, factsFile string) {
	facts := map[string]any{}
	os.MkdirAll(outDir, 0755)
	writePathGrammar(repo, outDir)
	writePipeline(repo, outDir, facts)
	writeMilestones(repo, outDir, facts)
	writeLevels(repo, outDir, facts)
	writeOperators(repo, outDir, facts)
	writeCliFacts(repo, outDir, facts)
	writeInventories(repo, outDir, facts)
	kw, bi, deny := engineTables()
	writeIdentTables(repo, outDir, facts, kw, bi, deny)
	b, _ := json.MarshalIndent(facts, "", " ")
	os.WriteFile(factsFile, b, 0644)
}
