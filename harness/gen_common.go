package main

import (
	"fmt"
	"math/rand"
)

type G struct{ r *rand.Rand }

func (g *G) n(k int) int             { return g.r.Intn(k) }
func (g *G) coin(p float64) bool     { return g.r.Float64() < p }
func (g *G) pick(xs []string) string { return xs[g.r.Intn(len(xs))] }

func ip(i int) *int       { return &i }
func i64p(i int64) *int64 { return &i }

var propPool = []string{"p0", "p1", "p2", "p3"}
var strPool = []string{"a", "b", "cc", "ddd", "1", "true", "t\tb", "C:\\temp\\new"} // (the last one: backslashes before letters that would be escapes)

func nodeId(i int) string { return fmt.Sprintf("%s%d", NodeNS, i) }

// random graph: nNodes nodes, classes T/U, properties p0..p3 holding literals or links
func (g *G) graph(nNodes int, linkBias float64) Graph { return g.graphA(nNodes, linkBias, false) }

func (g *G) graphA(nNodes int, linkBias float64, annotate bool) Graph {
	var gr Graph
	var extra []Node
	for i := 0; i < nNodes; i++ {
		n := Node{Id: nodeId(i), Types: []string{}, Props: []Prop{}}
		if g.coin(0.7) {
			n.Types = append(n.Types, NS+"T")
		}
		if g.coin(0.3) {
			n.Types = append(n.Types, NS+"U")
		}
		for _, p := range propPool {
			if g.coin(0.35) {
				continue
			}
			k := 1 + g.n(3)
			if bigInts && g.coin(0.7) {
				k = 1 // single-valued: every per-value constraint is classical there
			}
			var vs []Val
			seen := map[string]bool{}
			for j := 0; j < k; j++ {
				var v Val
				var key string
				if bigInts && g.coin(0.75) {
					v = VI(g.intValue())
					key = fmt.Sprint("i", *v.I)
				} else if g.coin(linkBias) {
					t := g.n(nNodes + 1) // nNodes => dangling link
					v = VR(nodeId(t))
					key = "r" + *v.R
				} else {
					switch g.n(3) {
					case 0:
						v = VS(g.pick(strPool))
						key = "s" + *v.S
					case 1:
						v = VI(g.intValue())
						key = fmt.Sprint("i", *v.I)
					default:
						v = VB(g.coin(0.5))
						key = fmt.Sprint("b", *v.B)
					}
				}
				if !seen[key] { // JSON-LD flattening merges repeated values
					seen[key] = true
					vs = append(vs, v)
				}
			}
			n.Props = append(n.Props, Prop{Iri: NS + p, Vals: vs})
		}
		// annotations (custom domain properties): node --customDomainProperties--> link X, node --X--> annotation node
		if annotate && g.coin(0.45) {
			k := 1 + g.n(2)
			var links []Val
			for j := 0; j < k; j++ {
				x := fmt.Sprintf("%sann/%d_%d", NodeNS, i, j)
				y := fmt.Sprintf("%sannval/%d_%d", NodeNS, i, j)
				links = append(links, VR(x))
				switch g.n(6) {
				case 0:
					n.Props = append(n.Props, Prop{Iri: x, Vals: []Val{VR(y), VR(nodeId(g.n(nNodes)))}}) // two values: not an annotation
				case 1:
					n.Props = append(n.Props, Prop{Iri: x, Vals: []Val{VS("literal")}})
				default:
					n.Props = append(n.Props, Prop{Iri: x, Vals: []Val{VR(y)}})
				}
				ann := Node{Id: y, Types: []string{NS + "A"}, Props: []Prop{}}
				switch g.n(5) {
				case 0:
					ann.Props = append(ann.Props, Prop{Iri: ExtensionName, Vals: []Val{VS("other")}})
				case 1:
					ann.Props = append(ann.Props, Prop{Iri: ExtensionName, Vals: []Val{VS("wadus"), VS("other")}})
				default:
					ann.Props = append(ann.Props, Prop{Iri: ExtensionName, Vals: []Val{VS(g.pick([]string{"wadus", "wadus", "maturity"}))}})
				}
				if g.coin(0.7) {
					ann.Props = append(ann.Props, Prop{Iri: NS + "p0", Vals: []Val{VS(g.pick(strPool))}})
				}
				extra = append(extra, ann)
			}
			n.Props = append(n.Props, Prop{Iri: CustomDomainProps, Vals: links})
		}
		if len(n.Types) == 0 && len(n.Props) == 0 {
			// JSON-LD flattening drops nodes that carry nothing but an @id
			n.Types = append(n.Types, NS+"U")
		}
		gr = append(gr, n)
	}
	return append(gr, extra...)
}

// random path of the full grammar
var customSteps = false

func (g *G) path(depth int) Path {
	if depth <= 0 || g.coin(0.45) {
		if g.coin(0.07) {
			return PType()
		}
		if customSteps && g.coin(0.3) {
			return PCustom(g.pick([]string{"wadus", "wadus", "maturity", "absent"}), g.coin(0.2))
		}
		return PP(g.pick(propPool), g.coin(0.25))
	}
	k := 2 + g.n(2)
	var parts []Path
	if g.coin(0.55) {
		for i := 0; i < k; i++ {
			x := g.path(depth - 1)
			if x.Seq != nil && g.coin(0.7) { // mostly flatten as the parser would read without parens
				parts = append(parts, x.Seq...)
			} else {
				parts = append(parts, x)
			}
		}
		return Path{Seq: parts}
	}
	for i := 0; i < k; i++ {
		x := g.path(depth - 1)
		if x.Alt != nil && g.coin(0.7) {
			parts = append(parts, x.Alt...)
		} else {
			parts = append(parts, x)
		}
	}
	return Path{Alt: parts}
}

// integers the graph and the numeric constraints use: small ones, or - when bigInts is on - neighbours of 2^53 and of the
// int64 limits, which a float64 cannot tell apart
var bigInts = false

func (g *G) intValue() int64 {
	if bigInts && g.coin(0.7) {
		return g.pickInt([]int64{9007199254740991, 9007199254740992, 9007199254740993, 9007199254740994, -9007199254740993, 9223372036854775806, 9223372036854775807, 1000000000000000001, 1000000000000000002})
	}
	return int64(g.n(7) - 2)
}

func (g *G) pickInt(xs []int64) int64 { return xs[g.n(len(xs))] }
