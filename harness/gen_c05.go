package main

import (
	"encoding/json"
	"fmt"
	"io"
	"strings"
)

// c05 cases: one abstract graph, several JSON-LD serialisations of it, and a few profiles.
type C05Doc struct {
	Text     string `json:"text"`
	Form     string `json:"form"`     // description of the choices made
	Fragment bool   `json:"fragment"` // inside the fragment the Lean model covers (no @context)
}

type C05Case struct {
	Op       string   `json:"op"`
	Id       int      `json:"id"`
	Graph    Graph    `json:"graph"`
	Docs     []C05Doc `json:"docs"`
	Profiles []string `json:"profiles"`
}

// ordered JSON object writer (key order is one of the things we vary)
type okv struct {
	k string
	v string // already-rendered JSON
}

func renderObj(kvs []okv) string {
	var parts []string
	for _, kv := range kvs {
		kb, _ := json.Marshal(kv.k)
		parts = append(parts, string(kb)+":"+kv.v)
	}
	return "{" + strings.Join(parts, ",") + "}"
}

type serOpts struct {
	g         *G
	compact   bool // use a @context with prefixes / @vocab / @base
	vocab     bool // the context also sets @vocab to the namespace: bare local names for properties and classes
	embed     bool
	embedded  map[string]bool // node ids whose triples were (partly) placed inside a parent
	remaining map[string]*Node
	forms     []string
}

func (o *serOpts) iri(full string) string {
	if !o.compact {
		return full
	}
	if strings.HasPrefix(full, NS) {
		if o.vocab && o.g.coin(0.5) {
			return strings.TrimPrefix(full, NS) // vocabulary-relative
		}
		if o.g.coin(0.5) {
			return "ex:" + strings.TrimPrefix(full, NS)
		}
		return full
	}
	return full
}

func (o *serOpts) idStr(id string) string {
	if o.compact && strings.HasPrefix(id, NodeNS) && o.g.coin(0.5) {
		return strings.TrimPrefix(id, NodeNS) // relative to @base
	}
	return id
}

func (o *serOpts) scalar(v Val) string {
	var raw string
	switch {
	case v.S != nil:
		b, _ := json.Marshal(*v.S)
		raw = string(b)
	case v.I != nil:
		raw = fmt.Sprint(*v.I)
	default:
		raw = fmt.Sprint(*v.B)
	}
	if o.g.coin(0.3) {
		return `{"@value":` + raw + `}`
	}
	return raw
}

// takeSome removes and returns a random subset (possibly all) of the remaining triples of node id
func (o *serOpts) takeSome(id string, all bool) *Node {
	rem := o.remaining[id]
	if rem == nil {
		return nil
	}
	part := &Node{Id: id}
	var keepT []string
	for _, t := range rem.Types {
		if all || o.g.coin(0.7) {
			part.Types = append(part.Types, t)
		} else {
			keepT = append(keepT, t)
		}
	}
	rem.Types = keepT
	var keepP []Prop
	for _, p := range rem.Props {
		if all || o.g.coin(0.7) {
			part.Props = append(part.Props, p)
		} else {
			keepP = append(keepP, p)
		}
	}
	rem.Props = keepP
	return part
}

func (o *serOpts) nodeObj(part *Node, depth int, onPath map[string]bool) string {
	var kvs []okv
	idb, _ := json.Marshal(o.idStr(part.Id))
	kvs = append(kvs, okv{"@id", string(idb)})
	if len(part.Types) > 0 {
		var ts []string
		for _, t := range part.Types {
			tb, _ := json.Marshal(o.iri(t))
			ts = append(ts, string(tb))
			if o.g.coin(0.15) {
				ts = append(ts, string(tb)) // repeated
			}
		}
		o.g.r.Shuffle(len(ts), func(a, b int) { ts[a], ts[b] = ts[b], ts[a] })
		if len(ts) == 1 && o.g.coin(0.5) {
			kvs = append(kvs, okv{"@type", ts[0]})
		} else {
			kvs = append(kvs, okv{"@type", "[" + strings.Join(ts, ",") + "]"})
		}
	}
	for _, p := range part.Props {
		var vs []string
		for _, v := range p.Vals {
			var r string
			if v.R != nil {
				target := *v.R
				if o.embed && depth < 4 && !onPath[target] && o.remaining[target] != nil && o.g.coin(0.5) {
					sub := o.takeSome(target, o.g.coin(0.5))
					o.embedded[target] = true
					onPath[target] = true
					r = o.nodeObj(sub, depth+1, onPath)
					delete(onPath, target)
				} else {
					ib, _ := json.Marshal(o.idStr(target))
					r = `{"@id":` + string(ib) + `}`
				}
			} else {
				r = o.scalar(v)
			}
			vs = append(vs, r)
			if o.g.coin(0.12) {
				if v.R != nil {
					ib, _ := json.Marshal(o.idStr(*v.R))
					vs = append(vs, `{"@id":`+string(ib)+`}`)
				} else {
					vs = append(vs, r) // repeated value
				}
			}
		}
		o.g.r.Shuffle(len(vs), func(a, b int) { vs[a], vs[b] = vs[b], vs[a] })
		var val string
		if len(vs) == 1 && o.g.coin(0.5) {
			val = vs[0]
		} else {
			val = "[" + strings.Join(vs, ",") + "]"
		}
		kvs = append(kvs, okv{o.iri(p.Iri), val})
	}
	o.g.r.Shuffle(len(kvs), func(a, b int) { kvs[a], kvs[b] = kvs[b], kvs[a] })
	return renderObj(kvs)
}

func hasTriples(n *Node) bool { return n != nil && (len(n.Types) > 0 || len(n.Props) > 0) }

func (g *G) serialise(gr Graph, compact, embed bool) C05Doc {
	o := &serOpts{g: g, compact: compact, vocab: compact && g.coin(0.4), embed: embed, embedded: map[string]bool{}, remaining: map[string]*Node{}}
	order := g.r.Perm(len(gr))
	for i := range gr {
		n := gr[i]
		cp := Node{Id: n.Id, Types: append([]string{}, n.Types...), Props: append([]Prop{}, n.Props...)}
		o.remaining[n.Id] = &cp
	}
	var tops []string
	for _, idx := range order {
		id := gr[idx].Id
		for hasTriples(o.remaining[id]) {
			// a node may be split over several top-level occurrences
			part := o.takeSome(id, g.coin(0.8))
			if !hasTriples(part) {
				continue
			}
			tops = append(tops, o.nodeObj(part, 0, map[string]bool{id: true}))
		}
	}
	g.r.Shuffle(len(tops), func(a, b int) { tops[a], tops[b] = tops[b], tops[a] })
	ctx := ""
	if compact {
		ctx = `"@context":{"ex":"` + NS + `","@base":"` + NodeNS + `"},`
		if o.vocab {
			ctx = `"@context":{"@vocab":"` + NS + `","ex":"` + NS + `","@base":"` + NodeNS + `"},`
		}
	}
	form := "array"
	var text string
	fragment := true
	switch {
	case !compact && len(tops) > 1 && g.coin(0.15):
		// JSON-LD 1.1: the first node object carries the others in an @included block (outside the Lean model's fragment)
		form = "@included"
		fragment = false
		text = tops[0][:len(tops[0])-1] + `,"@included":[` + strings.Join(tops[1:], ",") + "]}"
	case len(tops) == 1 && g.coin(0.5):
		form = "single-object"
		text = tops[0]
		if compact {
			text = "{" + ctx + text[1:]
		}
	case compact || g.coin(0.4):
		form = "@graph"
		text = "{" + ctx + `"@graph":[` + strings.Join(tops, ",") + "]}"
	default:
		text = "[" + strings.Join(tops, ",") + "]"
	}
	if g.coin(0.3) {
		text = strings.ReplaceAll(text, ",", " ,\n  ")
	}
	if g.coin(0.4) {
		// white space around the document (JSON allows space, tab, line feed, carriage return before and after the value)
		text = g.pick([]string{"\n", " ", "\t", "\r\n  ", "\n\n    ", ""}) + text + g.pick([]string{"", "\n", "  \n", "\r\n", "\t"})
	}
	if embed {
		form += "+embedded"
	}
	if compact {
		form += "+context"
	}
	if o.vocab {
		form += "+vocab"
	}
	return C05Doc{Text: text, Form: form, Fragment: fragment}
}

// a chain n0 -> n1 -> ... written flat and fully embedded (each node inside its parent), with and without
// one-element arrays: the nesting depth of the embedded form grows with the graph
func deepChainCase(g *G, id, length int) C05Case {
	var gr Graph
	for k := 0; k < length; k++ {
		n := Node{Id: nodeId(k), Types: []string{NS + "T"}, Props: []Prop{}}
		if k+1 < length {
			n.Props = append(n.Props, Prop{Iri: NS + "p0", Vals: []Val{VR(nodeId(k + 1))}})
		}
		if k%2 == 0 {
			n.Props = append(n.Props, Prop{Iri: NS + "p1", Vals: []Val{VS("v")}})
		}
		gr = append(gr, n)
	}
	embedded := func(wrap bool) string {
		text := ""
		for k := length - 1; k >= 0; k-- {
			var kvs []okv
			idb, _ := json.Marshal(nodeId(k))
			kvs = append(kvs, okv{"@id", string(idb)}, okv{"@type", `["` + NS + `T"]`})
			if k%2 == 0 {
				kvs = append(kvs, okv{NS + "p1", `"v"`})
			}
			if text != "" {
				if wrap {
					kvs = append(kvs, okv{NS + "p0", "[" + text + "]"})
				} else {
					kvs = append(kvs, okv{NS + "p0", text})
				}
			}
			text = renderObj(kvs)
		}
		return text
	}
	c := C05Case{Op: "c05", Id: id, Graph: gr}
	c.Docs = []C05Doc{
		{Text: gr.RenderFlat(), Form: "flat-canonical", Fragment: true},
		{Text: embedded(false), Form: fmt.Sprintf("single-object+embedded-chain-%d", length), Fragment: true},
		{Text: "[" + embedded(true) + "]", Form: fmt.Sprintf("array+embedded-chain-arrays-%d", length), Fragment: true},
	}
	prof := ProfileSpec{Name: "c05_chain", Atoms: []Atom{{Kind: "minCount", Path: PP("p1", false), Arg: i64p(1)}},
		Validations: []Validation{{Name: "v", Class: NS + "T", Rule: Rule{Atom: ip(0)}}}}
	c.Profiles = []string{prof.Render()}
	return c
}

func genC05(g *G, n int, out io.Writer) {
	enc := json.NewEncoder(out)
	maxBranches = 10
	lengths := []int{20, 33, 70, 150}
	if n > 500 {
		lengths = append(lengths, 300, 600, 1100)
	}
	for k, l := range lengths {
		enc.Encode(deepChainCase(g, 100000+k, l))
	}
	{
		// the witness of Acv.C05.quoted_values_order_sensitive (known finding KF-C05-1), replayed on the real code in every run:
		// one node, two values of one property, listed in both orders; the message quotes the property
		gr := Graph{{Id: nodeId(1), Types: []string{NS + "T"}, Props: []Prop{{NS + "p1", []Val{VS("a"), VS("b")}}}}}
		c := C05Case{Op: "c05", Id: 200000, Graph: gr}
		c.Docs = append(c.Docs, C05Doc{Text: gr.RenderFlat(), Form: "flat-canonical", Fragment: true},
			C05Doc{Text: `[{"@id":"` + nodeId(1) + `","@type":["` + NS + `T"],"` + NS + `p1":["b","a"]}]`, Form: "array-values-reversed", Fragment: true})
		prof := ProfileSpec{Name: "c05_witness", Atoms: []Atom{{Kind: "minCount", Path: PP("zz", false), Arg: i64p(1)}},
			Validations: []Validation{{Name: "v", Class: NS + "T", Rule: Rule{Atom: ip(0)}, Message: "values {{ex.p1}}"}}}
		c.Profiles = []string{prof.Render()}
		enc.Encode(c)
	}
	{
		// node ids with a `%` that starts no percent-encoded byte (what a careless exporter writes for "100%"): the same graph with the ids
		// written in full and as compact IRIs / as strings of an `"@type": "@id"` term. (Not relative to @base: the JSON-LD processor
		// cannot resolve such a reference and the document is an error - a limitation of the dependency, observed, outside the model.)
		a, b := NodeNS+"discount-100%", NodeNS+"50%off"
		gr := Graph{{Id: a, Types: []string{NS + "T"}, Props: []Prop{{NS + "p0", []Val{VR(b)}}, {NS + "p1", []Val{VS("100%")}}}}, {Id: b, Types: []string{NS + "T", NS + "U"}}}
		c := C05Case{Op: "c05", Id: 200001, Graph: gr}
		c.Docs = append(c.Docs, C05Doc{Text: gr.RenderFlat(), Form: "flat-canonical", Fragment: false},
			C05Doc{Text: `{"@context":{"n":"` + NodeNS + `","v":"` + NS + `","p0":{"@id":"v:p0","@type":"@id"}},"@graph":[{"@id":"n:discount-100%","@type":"v:T","p0":"n:50%off","v:p1":"100%"},{"@id":"n:50%off","@type":["v:T","v:U"]}]}`, Form: "prefixed-stray-percent", Fragment: false},
			C05Doc{Text: `[{"@id":"` + b + `","@type":["` + NS + `U","` + NS + `T"]},{"@type":["` + NS + `T"],"` + NS + `p1":["100%"],"` + NS + `p0":[{"@id":"` + b + `"}],"@id":"` + a + `"}]`, Form: "flat-permuted-stray-percent", Fragment: false})
		prof := ProfileSpec{Name: "c05_percent", Atoms: []Atom{{Kind: "minCount", Path: PP("zz", false), Arg: i64p(1)}, {Kind: "maxCount", Path: PP("p0", false), Arg: i64p(0)}},
			Validations: []Validation{{Name: "v", Class: NS + "T", Rule: Rule{Atom: ip(0)}}, {Name: "w", Class: NS + "T", Rule: Rule{Atom: ip(1)}, Level: "warning"}}}
		c.Profiles = []string{prof.Render()}
		enc.Encode(c)
	}
	savedPool := propPool
	defer func() { propPool = savedPool }()
	for i := 0; i < n; i++ {
		propPool = savedPool
		if i%3 == 1 {
			// local names that are also names the system knows (built-in prefix names, keywords without the @)
			propPool = []string{"p0", g.pick([]string{"data", "core", "doc", "meta"}), g.pick([]string{"shacl", "apiContract", "type", "id"}), "p3"}
		}
		gr := g.graph(2+g.n(6), 0.55)
		if i%20 == 7 {
			// several hundred nodes (sparse links): what a serialisation does to a graph does not depend on how big the graph is
			gr = g.graph(258+g.n(40), 0.008)
		}
		if i%4 == 2 {
			// nodes that are instances of many classes (the classes a profile targets can stand anywhere in the list)
			for k := range gr {
				if g.coin(0.5) {
					for x := 0; x < 8+g.n(6); x++ {
						gr[k].Types = append(gr[k].Types, fmt.Sprintf("%sK%d", NS, x))
					}
				}
			}
		}
		// twin properties: one property of a node gets the same (two or more) values as another one
		twinA, twinB := "", ""
		if i%3 == 0 {
			for k := range gr {
				for _, pr := range gr[k].Props {
					if len(pr.Vals) >= 2 && strings.HasPrefix(pr.Iri, NS) {
						twinA = strings.TrimPrefix(pr.Iri, NS)
						twinB = g.pick(propPool)
						if twinB != twinA {
							setProp(&gr[k], NS+twinB, append([]Val{}, pr.Vals...))
						}
						break
					}
				}
				if twinA != "" && twinB != twinA {
					break
				}
			}
		}
		var hubLink, hubVal string
		if g.coin(0.6) && len(gr) >= 4 {
			// a hub: node 0 links to three or more nodes through one predicate, and those nodes share few scalar values of
			// another one, so that a two-step path reaches equal values by different routes (in whatever order a document lists the links)
			hubLink, hubVal = g.pick(propPool), g.pick(propPool)
			var links []Val
			for k := 1; k < len(gr); k++ {
				links = append(links, VR(gr[k].Id))
				setProp(&gr[k], NS+hubVal, []Val{VS(g.pick([]string{"same", "same", "other", "third"}))})
			}
			setProp(&gr[0], NS+hubLink, links)
		}
		c := C05Case{Op: "c05", Id: i, Graph: gr}
		c.Docs = append(c.Docs, C05Doc{Text: gr.RenderFlat(), Form: "flat-canonical", Fragment: true})
		c.Docs = append(c.Docs, g.serialise(gr, false, false), g.serialise(gr, false, true), g.serialise(gr, false, true), g.serialise(gr, true, g.coin(0.5)))
		for k := 0; k < 2; k++ {
			pc := genC01Graph(g, k, g.coin(0.5))
			for vi := range pc.Validations {
				if g.coin(0.5) {
					// the message quotes node properties (possibly multi-valued, possibly links)
					pc.Validations[vi].Message = fmt.Sprintf("failed %s: {{ex.%s}} / {{ex.%s}}", pc.Validations[vi].Name, g.pick(propPool), g.pick(propPool))
				}
			}
			prof := ProfileSpec{Name: fmt.Sprintf("c05_%d_%d", i, k), Atoms: pc.Atoms, Paths: pc.Paths, Validations: pc.Validations}
			c.Profiles = append(c.Profiles, prof.Render())
		}
		{
			// order-sensitive constraint kinds over multi-valued paths: uniqueValues (the only one evaluated over an array of values)
			var up ProfileSpec
			up.Name = fmt.Sprintf("c05_%d_unique", i)
			t := true
			paths := []Path{g.path(2), g.path(2), {Seq: []Path{PP(g.pick(propPool), false), PP(g.pick(propPool), false)}},
				{Alt: []Path{PP(g.pick(propPool), false), PP(g.pick(propPool), false), PP(g.pick(propPool), g.coin(0.3))}}}
			if hubLink != "" {
				paths = append(paths, Path{Seq: []Path{PP(hubLink, false), PP(hubVal, false)}},
					Path{Seq: []Path{PP(hubLink, false), {Alt: []Path{PP(hubVal, false), PP(g.pick(propPool), false), PP(g.pick(propPool), false)}}}})
			}
			for k, q := range paths {
				up.Atoms = append(up.Atoms, Atom{Kind: "uniqueValues", Path: q, UArg: &t})
				ix := k
				up.Validations = append(up.Validations, Validation{Name: fmt.Sprintf("u%d", k), Class: NS + "T", Rule: Rule{Atom: &ix}})
			}
			// comparisons between two (multi-valued) properties: their verdict is about the two SETS of values
			for k, kind := range []string{"equalsToProperty", "disjointWithProperty", "lessThanProperty", "moreThanOrEqualsToProperty"} {
				a, b := PP(g.pick(propPool), false), PP(g.pick(propPool), false)
				if twinA != "" && twinB != twinA && k < 2 {
					a, b = PP(twinA, false), PP(twinB, false)
				}
				up.Atoms = append(up.Atoms, Atom{Kind: kind, Path: a, Other: &b})
				ix := len(up.Atoms) - 1
				up.Validations = append(up.Validations, Validation{Name: fmt.Sprintf("c%d", k), Class: NS + g.pick([]string{"T", "U"}), Rule: Rule{Atom: &ix}})
			}
			c.Profiles = append(c.Profiles, up.Render())
		}
		enc.Encode(c)
	}
}

func setProp(n *Node, iri string, vals []Val) {
	for k := range n.Props {
		if n.Props[k].Iri == iri {
			n.Props[k].Vals = vals
			return
		}
	}
	n.Props = append(n.Props, Prop{Iri: iri, Vals: vals})
}
