package main

// Translator, part 2b: a STRICT reading of pkg/milestones/milestones.go (Acv/Gen/Milestones.lean).
//
// writePipeline already emits which event constants the switch stores as starts and which Done reads which Start
// (milestoneStarts / milestoneDones in Acv/Gen/Pipeline.lean, read loosely: any index of `startEvents` inside a case).
// Here every case has to have exactly the documented shape
//
//	case e.XDone:
//		start := startEvents[e.XStart]
//		end := event
//		*milestoneChan <- generateMilestone(Op, start, end)
//
// and what is read in addition is: the Operation constant (and its string) of each case, the two field expressions of the
// literal in generateMilestone, where the milestone channel is closed, and that the event constants are a plain iota block.
// Anything that does not have the expected shape is listed in `milestoneUnreadable` (a theorem says the list is empty).

import (
	"fmt"
	"go/ast"
	"go/parser"
	"go/token"
	"os"
	"strconv"
	"strings"
)

type msCase struct {
	done, start int
	op          string
}

type msFacts struct {
	starts     []int
	cases      []msCase
	startField string
	durField   string
	closes     []string
	unreadable []string
}

func classifyTimeExpr(s string) string {
	switch strings.Join(strings.Fields(s), "") {
	case "start.Time":
		return ".startTime"
	case "end.Time":
		return ".endTime"
	case "end.Time.Sub(start.Time)":
		return ".endMinusStart"
	case "start.Time.Sub(end.Time)":
		return ".startMinusEnd"
	case "end.Time.Sub(end.Time)", "start.Time.Sub(start.Time)":
		return ".zero"
	}
	return ".unknown"
}

// eventsPlainIota reports why the constants of pkg/events/events.go are not `First EventType = iota` followed by bare names
// (the index of a name in the block is then its numeric value, which is what every table here relies on)
func eventsPlainIota(repo string) string {
	fset := token.NewFileSet()
	f, err := parser.ParseFile(fset, repo+"/pkg/events/events.go", nil, 0)
	if err != nil {
		return err.Error()
	}
	blocks := 0
	for _, d := range f.Decls {
		gd, ok := d.(*ast.GenDecl)
		if !ok || gd.Tok != token.CONST {
			continue
		}
		blocks++
		for i, sp := range gd.Specs {
			vs := sp.(*ast.ValueSpec)
			if len(vs.Names) != 1 {
				return "several names in one constant spec"
			}
			if i == 0 {
				if len(vs.Values) != 1 || !isNamed(vs.Values[0], "iota") || !isNamed(vs.Type, "EventType") {
					return "first event constant is not `EventType = iota`"
				}
			} else if len(vs.Values) != 0 || vs.Type != nil {
				return "event constant " + vs.Names[0].Name + " has an explicit value or type"
			}
		}
	}
	if blocks != 1 {
		return fmt.Sprintf("%d constant blocks in events.go", blocks)
	}
	return ""
}

func readMilestones(repo string, events []string) msFacts {
	var mf msFacts
	bad := func(format string, a ...any) { mf.unreadable = append(mf.unreadable, fmt.Sprintf(format, a...)) }
	if why := eventsPlainIota(repo); why != "" {
		bad("events.go: %s", why)
	}
	fset := token.NewFileSet()
	f, err := parser.ParseFile(fset, repo+"/pkg/milestones/milestones.go", nil, 0)
	if err != nil {
		bad("milestones.go: %v", err)
		return mf
	}
	line := func(n ast.Node) string { return strings.Join(strings.Fields(exprText(fset, n)), " ") }
	evIdx := func(e ast.Expr) int {
		if sel, ok := e.(*ast.SelectorExpr); ok && isNamed(sel.X, "e") {
			for i, n := range events {
				if n == sel.Sel.Name {
					return i
				}
			}
		}
		return -1
	}
	// Operation constants: name -> string value
	opStr := map[string]string{}
	for _, d := range f.Decls {
		gd, ok := d.(*ast.GenDecl)
		if !ok || gd.Tok != token.CONST {
			continue
		}
		for _, sp := range gd.Specs {
			vs := sp.(*ast.ValueSpec)
			if len(vs.Names) == 1 && len(vs.Values) == 1 && isNamed(vs.Type, "Operation") {
				if lit, ok := vs.Values[0].(*ast.BasicLit); ok && lit.Kind == token.STRING {
					if s, err := strconv.Unquote(lit.Value); err == nil {
						opStr[vs.Names[0].Name] = s
					}
				}
			}
		}
	}
	var gen, mk *ast.FuncDecl
	for _, d := range f.Decls {
		if fd, ok := d.(*ast.FuncDecl); ok && fd.Recv == nil && fd.Body != nil {
			switch fd.Name.Name {
			case "GenerateMilestonesFromEvents":
				gen = fd
			case "generateMilestone":
				mk = fd
			}
		}
	}
	// ---- generateMilestone(operation Operation, start, end e.Event) Milestone { return Milestone{...} }
	mf.startField, mf.durField = ".unknown", ".unknown"
	if mk == nil {
		bad("generateMilestone not found")
	} else {
		var params []string
		for _, p := range mk.Type.Params.List {
			for _, n := range p.Names {
				params = append(params, n.Name)
			}
		}
		if strings.Join(params, ",") != "operation,start,end" {
			bad("generateMilestone parameters are (%s)", strings.Join(params, ", "))
		}
		ok := false
		if len(mk.Body.List) == 1 {
			if ret, isRet := mk.Body.List[0].(*ast.ReturnStmt); isRet && len(ret.Results) == 1 {
				if cl, isLit := ret.Results[0].(*ast.CompositeLit); isLit && isNamed(cl.Type, "Milestone") && len(cl.Elts) == 3 {
					seen := map[string]bool{}
					for _, el := range cl.Elts {
						kv, isKV := el.(*ast.KeyValueExpr)
						if !isKV {
							continue
						}
						key := exprText(fset, kv.Key)
						seen[key] = true
						switch key {
						case "Operation":
							if !isNamed(kv.Value, "operation") {
								bad("generateMilestone: Operation: %s", line(kv.Value))
							}
						case "Start":
							mf.startField = classifyTimeExpr(exprText(fset, kv.Value))
							if mf.startField == ".unknown" {
								bad("generateMilestone: Start: %s", line(kv.Value))
							}
						case "Duration":
							mf.durField = classifyTimeExpr(exprText(fset, kv.Value))
							if mf.durField == ".unknown" {
								bad("generateMilestone: Duration: %s", line(kv.Value))
							}
						}
					}
					ok = seen["Operation"] && seen["Start"] && seen["Duration"]
				}
			}
		}
		if !ok {
			bad("generateMilestone is not a single `return Milestone{Operation:, Start:, Duration:}`")
		}
	}
	// ---- GenerateMilestonesFromEvents
	if gen == nil {
		bad("GenerateMilestonesFromEvents not found")
		return mf
	}
	// every close call of the file, by position
	var loop *ast.RangeStmt
	body := gen.Body.List
	for _, s := range body {
		if rs, ok := s.(*ast.RangeStmt); ok && loop == nil {
			loop = rs
		}
	}
	isClose := func(s ast.Stmt) bool {
		es, ok := s.(*ast.ExprStmt)
		if !ok {
			return false
		}
		c, ok := es.X.(*ast.CallExpr)
		return ok && isNamed(c.Fun, "close") && len(c.Args) == 1 && line(c.Args[0]) == "*milestoneChan"
	}
	nClose := 0
	ast.Inspect(f, func(n ast.Node) bool {
		if c, ok := n.(*ast.CallExpr); ok && isNamed(c.Fun, "close") {
			nClose++
		}
		return true
	})
	if len(body) == 3 && loop != nil && body[1] == ast.Stmt(loop) && isClose(body[2]) {
		mf.closes = append(mf.closes, "after-range-loop")
		nClose--
	}
	for ; nClose > 0; nClose-- {
		mf.closes = append(mf.closes, "elsewhere")
	}
	if len(body) != 3 || loop == nil {
		bad("GenerateMilestonesFromEvents is not `startEvents := make(..); for event := range *eventChan {..}; close(*milestoneChan)`")
		if loop == nil {
			return mf
		}
	}
	if as, ok := body[0].(*ast.AssignStmt); !ok || len(as.Lhs) != 1 || !isNamed(as.Lhs[0], "startEvents") || !strings.HasPrefix(line(as.Rhs[0]), "make(map[e.EventType]e.Event") {
		bad("first statement: %s", line(body[0]))
	}
	if !isNamed(loop.Key, "event") || loop.Value != nil || line(loop.X) != "*eventChan" {
		bad("loop header: for %s, %v := range %s", line(loop.Key), loop.Value, line(loop.X))
	}
	var sw *ast.SwitchStmt
	if len(loop.Body.List) == 1 {
		sw, _ = loop.Body.List[0].(*ast.SwitchStmt)
	}
	if sw == nil {
		bad("the loop body is not a single switch")
		return mf
	}
	if sw.Init == nil || line(sw.Init) != "eventType := event.EventType" || !isNamed(sw.Tag, "eventType") {
		bad("switch header: %v; %v", sw.Init != nil, sw.Tag != nil)
	}
	for _, s := range sw.Body.List {
		cc := s.(*ast.CaseClause)
		if cc.List == nil {
			if len(cc.Body) != 0 {
				bad("default case with a body")
			}
			continue
		}
		var tys []int
		for _, x := range cc.List {
			i := evIdx(x)
			if i < 0 {
				bad("case label %s is not an event constant", line(x))
			}
			tys = append(tys, i)
		}
		// start case
		if len(cc.Body) == 1 && line(cc.Body[0]) == "startEvents[eventType] = event" {
			for _, t := range tys {
				if t >= 0 {
					mf.starts = append(mf.starts, t)
				}
			}
			continue
		}
		// done case
		okShape := len(cc.Body) == 3 && len(tys) == 1 && tys[0] >= 0
		startOf, op := -1, ""
		if okShape {
			if as, ok := cc.Body[0].(*ast.AssignStmt); ok && as.Tok == token.DEFINE && len(as.Lhs) == 1 && isNamed(as.Lhs[0], "start") {
				if ix, ok := as.Rhs[0].(*ast.IndexExpr); ok && isNamed(ix.X, "startEvents") {
					startOf = evIdx(ix.Index)
				}
			}
			if line(cc.Body[1]) != "end := event" {
				okShape = false
			}
			if snd, ok := cc.Body[2].(*ast.SendStmt); ok && line(snd.Chan) == "*milestoneChan" {
				if call, ok := snd.Value.(*ast.CallExpr); ok && isNamed(call.Fun, "generateMilestone") && len(call.Args) == 3 &&
					isNamed(call.Args[1], "start") && isNamed(call.Args[2], "end") {
					if id, ok := call.Args[0].(*ast.Ident); ok {
						if s, known := opStr[id.Name]; known {
							op = s
						} else {
							bad("case %s: Operation constant %s has no string value", line(cc.List[0]), id.Name)
						}
					}
				} else {
					okShape = false
				}
			} else {
				okShape = false
			}
		}
		if !okShape || startOf < 0 {
			bad("case %s does not have the shape `start := startEvents[e.X]; end := event; *milestoneChan <- generateMilestone(Op, start, end)`", line(cc.List[0]))
			continue
		}
		mf.cases = append(mf.cases, msCase{tys[0], startOf, op})
	}
	return mf
}

func writeMilestones(repo, outDir string, facts map[string]any) {
	events := extractEventNames(repo)
	mf := readMilestones(repo, events)
	var cases, ops, starts []string
	for _, c := range mf.cases {
		cases = append(cases, fmt.Sprintf("(%d, %d, %s)", c.done, c.start, leanStr(c.op)))
		ops = append(ops, fmt.Sprintf("(%d, %s)", c.done, leanStr(c.op)))
	}
	for _, s := range mf.starts {
		starts = append(starts, fmt.Sprint(s))
	}
	var b strings.Builder
	b.WriteString("import Acv.Model.Milestones\nimport Acv.Gen.Pipeline\n/-! GENERATED by `acvh extract` from pkg/milestones/milestones.go and pkg/events/events.go — do not edit -/\nnamespace Acv.Gen\nopen Acv.Ms\n\n")
	fmt.Fprintf(&b, "/-- strict reading of the switch: (Done constant, the Start constant whose stored event it reads, Operation string), in source order -/\ndef milestoneCases : List (Nat × Nat × String) := [%s]\n\n", strings.Join(cases, ", "))
	fmt.Fprintf(&b, "/-- strict reading of the first case: constants stored in `startEvents`, in source order -/\ndef milestoneStartCase : List Nat := [%s]\n\n", strings.Join(starts, ", "))
	fmt.Fprintf(&b, "/-- (Done constant, Operation string of the milestone it sends) -/\ndef milestoneOps : List (Nat × String) := [%s]\n\n", strings.Join(ops, ", "))
	fmt.Fprintf(&b, "/-- `Start:` field of the literal in generateMilestone -/\ndef milestoneStartField : TimeExpr := %s\n\n", mf.startField)
	fmt.Fprintf(&b, "/-- `Duration:` field of the literal in generateMilestone -/\ndef milestoneDurationField : TimeExpr := %s\n\n", mf.durField)
	fmt.Fprintf(&b, "/-- where the file calls `close` -/\ndef milestoneCloses : List String := %s\n\n", leanStrList(mf.closes))
	fmt.Fprintf(&b, "/-- what does not have the documented shape -/\ndef milestoneUnreadable : List String := %s\n\n", leanStrList(mf.unreadable))
	b.WriteString("/-- the table that drives `Acv.Ms.milestones`: starts and Done/Start pairing as regenerated in Acv/Gen/Pipeline.lean, the rest from here -/\ndef milestoneTable : Table :=\n  { starts := milestoneStarts, dones := milestoneDones, ops := milestoneOps,\n    startField := milestoneStartField, durationField := milestoneDurationField }\n\nend Acv.Gen\n")
	if err := os.WriteFile(outDir+"/Milestones.lean", []byte(b.String()), 0644); err != nil {
		panic(err)
	}
	facts["milestones_unreadable"] = mf.unreadable
}
