package main

import (
	"strings"
	"encoding/json"
	"fmt"
	"github.com/aml-org/amf-custom-validator/pkg/config"
	"io"
)

type C03Config struct {
	IncludeDate   bool   `json:"includeDate"`
	Time          string `json:"time"`
	ReportSchema  string `json:"reportSchema"`
	LexicalSchema string `json:"lexicalSchema"`
}

type C03Case struct {
	Op          string              `json:"op"`
	Id          int                 `json:"id"`
	ProfileName string              `json:"profileName"`
	Atoms       []Atom              `json:"atoms"`
	Paths       []Path              `json:"paths"`
	Validations []Validation        `json:"validations"`
	Levels      map[string][]string `json:"levels"`
	Graph       Graph               `json:"graph"`
	Config      C03Config           `json:"config"`
	// which entry point: 0 Validate, 1 ValidateCompiled (both: default configuration, wall clock), 2 ValidateWithConfiguration,
	// 3 ValidateCompiledWithConfiguration; and the debug flag passed to it
	Entry   int    `json:"entry"`
	Debug   bool   `json:"debug"`
	Profile string `json:"profile"`
	Data    string `json:"data"`
}

var levelNames = []string{"violation", "warning", "info"}

func genC03(g *G, n int, out io.Writer) {
	enc := json.NewEncoder(out)
	maxBranches = 10
	for i := 0; i < n; i++ {
		base := genC01Graph(g, i, true)
		c := C03Case{Op: "c03", Id: i, Atoms: base.Atoms, Paths: base.Paths, Graph: base.Graph}
		if i%40 == 13 {
			// a report with hundreds of results in a level: severities, conforms and the header do not depend on how many there are
			c.Graph = g.graph(140+g.n(200), 0.01)
		}
		c.ProfileName = g.pick([]string{"P", "warning", "info", "violation", "My Profile 1.0", "validations", "profile"})
		if g.coin(0.4) {
			// any text is a name: pieces from the hostile alphabet (quotes, escapes, separators, BMP and astral code points)
			c.ProfileName = g.pick([]string{"P", "Règles ", "规则 "}) + g.hostile(4)
		}
		rawTabs := g.coin(0.2)
		if rawTabs {
			c.ProfileName += g.pick([]string{"\tcolumn", " a\tb ", "\t"})
		}
		// 0..5 validations, each a small formula; names may look like keys of the profile language
		nv := g.n(6)
		rg := &ruleGen{g: g, nAtoms: len(c.Atoms), nPaths: len(c.Paths), used: map[string]int{}}
		names := []string{"v0", "v1", "warning", "message", "v4", "and"}
		if i%5 == 3 {
			// validations whose names differ only in the case of their letters are different validations
			names = []string{"v0", "V0", "warning", "Warning", "WARNING", "and"}
		}
		for v := 0; v < nv; v++ {
			cls := NS + "T"
			if g.coin(0.3) {
				cls = NS + "U"
			}
			name := names[v]
			if g.coin(0.2) {
				name = fmt.Sprintf("n%d", v) + g.hostile(3) // any text is a validation name (quotes, tabs, non-ASCII ...)
			}
			c.Validations = append(c.Validations, Validation{Name: name, Class: cls, Rule: rg.rule(g.n(3))})
		}
		c.Levels = map[string][]string{}
		for _, l := range levelNames {
			if g.coin(0.15) {
				continue // level key absent
			}
			lst := []string{}
			for _, v := range c.Validations {
				if g.coin(0.45) {
					lst = append(lst, v.Name)
					if g.coin(0.1) {
						lst = append(lst, v.Name) // listed twice
					}
				}
			}
			if g.coin(0.25) {
				// listed but not defined, at any position of the list
				at := g.n(len(lst) + 1)
				ghost := "ghost"
				if len(c.Validations) > 0 && (i+len(lst))%2 == 0 { // (no draw from the generator here: the formulas of the later cases stay the ones the earlier sweeps ran)
					// … among them the name of a defined validation in another capitalisation, or with a blank after it: names are
					// compared as written
					v0 := c.Validations[(i/2)%len(c.Validations)].Name
					ghost = []string{strings.ToUpper(v0), strings.Title(v0), v0 + " ", " " + v0}[(i/3)%4]
					for _, v := range c.Validations {
						if v.Name == ghost {
							ghost = "ghost"
						}
					}
				}
				lst = append(lst[:at], append([]string{ghost}, lst[at:]...)...)
			}
			c.Levels[l] = lst
		}
		c.Config = C03Config{
			IncludeDate:   g.coin(0.5),
			Time:          fmt.Sprintf("20%02d-0%d-1%dT0%d:%02d:%02d%s", g.n(30), 1+g.n(9), g.n(9), g.n(9), g.n(60), g.n(60), g.pick([]string{"Z", "Z", "+02:00", "-08:00", "+05:30", "-00:30", "+14:00"})),

			ReportSchema:  g.pick([]string{"file:///dialects/validation-report.yaml", "http://x.org/r", ""}),
			LexicalSchema: g.pick([]string{"file:///dialects/lexical.yaml", "http://x.org/l"}),
		}
		if g.coin(0.12) {
			c.Config.Time = g.pick([]string{"0001-01-01T00:00:00Z", "1970-01-01T00:00:00Z", "9999-12-31T23:59:59Z"})
		}
		if g.coin(0.3) && len(c.Config.Time) > 19 {
			// an instant with a fraction of a second (in any zone): the report shows whole seconds (the fraction is cut, never rounded up)
			c.Config.Time = c.Config.Time[:19] + g.pick([]string{".5", ".999999999", ".000000001", ".49", ".75"}) + c.Config.Time[19:]
		}
		c.Entry = []int{2, 3, 2, 3, 0, 1}[i%6]
		c.Debug = g.coin(0.15)
		if c.Entry < 2 {
			// the entry points without a configuration use the default one and the wall clock: the harness checks that the date
			// is the current time and hands "NOW" to the comparison
			def := config.DefaultReportConfiguration()
			c.Config = C03Config{IncludeDate: def.IncludeReportCreationTime, Time: "NOW", ReportSchema: def.ReportSchemaIri, LexicalSchema: def.LexicalSchemaIri}
		}
		prof := ProfileSpec{Name: c.ProfileName, Atoms: c.Atoms, Paths: c.Paths, Validations: c.Validations, Levels: c.Levels}
		c.Profile = prof.Render()
		if rawTabs && !strings.Contains(c.Profile, "\\\\") {
			// tab characters written raw inside the double-quoted scalars instead of as the escape \t (the same YAML value)
			c.Profile = strings.ReplaceAll(c.Profile, "\\t", "\t")
		}
		c.Data = c.Graph.RenderFlat()
		enc.Encode(c)
	}
}
