package main

import (
	"fmt"
	"time"

	"github.com/aml-org/amf-custom-validator/pkg"
	"github.com/aml-org/amf-custom-validator/pkg/events"
	"github.com/aml-org/amf-custom-validator/pkg/milestones"
	"github.com/open-policy-agent/opa/rego"
)

type regoPrepared = rego.PreparedEvalQuery

func compileQuiet(profile string) (*regoPrepared, error) {
	type ret struct {
		c   *regoPrepared
		err error
	}
	done := make(chan ret, 1)
	go func() {
		var r ret
		defer func() {
			if p := recover(); p != nil {
				r = ret{nil, fmt.Errorf("panic: %v", p)}
			}
			done <- r
		}()
		r.c, r.err = pkg.CompileProfile(profile, false, nil)
	}()
	select {
	case r := <-done:
		return r.c, r.err
	case <-time.After(callDeadline(150)):
		return nil, errCompileBlocked
	}
}

var errCompileBlocked = fmt.Errorf("pkg.CompileProfile did not return")

type chanObs struct {
	Outcome    string
	Report     string
	Err        string
	Events     []int
	Closes     int
	Milestones []string
}

// runWithChannel calls f with a fresh event channel, a consumer goroutine draining it, and a second
// consumer turning a copy of the events into milestones with the library's own generator.
func runWithChannel(f func(ch *chan events.Event) (string, error)) chanObs {
	return runWithConsumer(f, -1, -1, 0)
}

// runWithConsumer: capacity < 0 means a generous buffer; the consumer sleeps stallMs once it has received stallAt events
func runWithConsumer(f func(ch *chan events.Event) (string, error), capacity, stallAt, stallMs int) chanObs {
	if capacity < 0 {
		capacity = 64
	}
	ch := make(chan events.Event, capacity)
	drained := make(chan []events.Event, 1)
	go func() {
		var evs []events.Event
		if stallAt == 0 {
			time.Sleep(time.Duration(stallMs) * time.Millisecond)
		}
		for ev := range ch {
			evs = append(evs, ev)
			if len(evs) == stallAt {
				time.Sleep(time.Duration(stallMs) * time.Millisecond)
			}
		}
		drained <- evs
	}()
	type ret struct {
		rep string
		err error
		pan any
	}
	rc := make(chan ret, 1)
	go func() {
		defer func() {
			if r := recover(); r != nil {
				rc <- ret{pan: r}
			}
		}()
		rep, err := f(&ch)
		rc <- ret{rep: rep, err: err}
	}()
	var r ret
	select {
	case r = <-rc:
	case <-time.After(callDeadline(120)):
		return chanObs{Outcome: "timeout"}
	}
	obs := chanObs{}
	switch {
	case r.pan != nil:
		obs.Outcome, obs.Err = "panic", fmt.Sprint(r.pan)
	case r.err != nil:
		obs.Outcome, obs.Err = "err", r.err.Error()
	default:
		obs.Outcome, obs.Report = "ok", r.rep
	}
	var evs []events.Event
	select {
	case evs = <-drained:
		obs.Closes = 1
	case <-time.After(time.Duration(300+2*stallMs) * time.Millisecond): // a stalled consumer may still be asleep with events in the buffer
		obs.Closes = 0
		close(ch)
		evs = <-drained
	}
	// a second close must panic if (and only if) the library closed the channel
	if obs.Closes == 1 {
		func() {
			defer func() {
				if recover() == nil {
					obs.Closes = -1 // drained without a close?
				}
			}()
			close(ch)
		}()
	}
	for _, ev := range evs {
		obs.Events = append(obs.Events, int(ev.EventType))
	}
	if obs.Events == nil {
		obs.Events = []int{}
	}
	// milestones from the same events
	ech := make(chan events.Event, len(evs)+1)
	mch := make(chan milestones.Milestone, len(evs)+1)
	for _, ev := range evs {
		ech <- ev
	}
	close(ech)
	obs.Milestones = []string{}
	genDone := make(chan any, 1)
	go func() {
		defer func() { genDone <- recover() }()
		milestones.GenerateMilestonesFromEvents(&ech, &mch)
	}()
	select {
	case p := <-genDone:
		if p != nil {
			obs.Milestones = append(obs.Milestones, fmt.Sprintf("<milestone generator panicked: %v>", p))
		}
	case <-time.After(callDeadline(60)):
		obs.Milestones = append(obs.Milestones, "<milestone generator did not return>")
		return obs
	}
	// the generator has returned: everything it sent is in the buffer, and the channel must be closed
	for {
		select {
		case m, ok := <-mch:
			if !ok {
				return obs
			}
			neg := ""
			if m.Duration < 0 {
				neg = ":negative"
			}
			obs.Milestones = append(obs.Milestones, string(m.Operation)+neg)
			continue
		default:
			obs.Milestones = append(obs.Milestones, "<milestone channel not closed>")
			return obs
		}
	}
}
