package main

import (
	"encoding/json"
	"fmt"
	"io"
)

// C01 case: a profile of declarative validations and a graph; observed as the set of
// (validation, focus node) pairs in the report.
type C01Case struct {
	Op          string       `json:"op"`
	Id          int          `json:"id"`
	Stream      string       `json:"stream"`
	Atoms       []Atom       `json:"atoms"`
	Paths       []Path       `json:"paths"`
	Validations []Validation `json:"validations"`
	Graph       Graph        `json:"graph"`
	Profile     string       `json:"profile"`
	Data        string       `json:"data"`
	// the node tree yaml.v3 reads from Profile (same encoding as the `parse` cases): what the front-end model is run on
	Tree any `json:"tree,omitempty"`
}

type ruleGen struct {
	g      *G
	nAtoms int
	nPaths int
	// which connectives the formula used (for the distribution histogram)
	used map[string]int
}

func (rg *ruleGen) atom() Rule {
	rg.used["atom"]++
	return Rule{Atom: ip(rg.g.n(rg.nAtoms))}
}

// branches estimates the number of failure branches the translator expands a rule into
// (neg = under a negation); used only to keep generated cases within seconds of compile time.
func branches(r Rule, neg bool) int {
	sum := func(rs []Rule, n bool) int {
		t := 0
		for _, x := range rs {
			t += branches(x, n)
		}
		return t
	}
	prod := func(rs []Rule, n bool) int {
		t := 1
		for _, x := range rs {
			t *= branches(x, n)
			if t > 1<<20 {
				return 1 << 20
			}
		}
		return t
	}
	switch {
	case r.Atom != nil:
		return 1
	case r.And != nil:
		if neg {
			return prod(r.And, true)
		}
		return sum(r.And, false)
	case r.Or != nil:
		if neg {
			return sum(r.Or, true)
		}
		return prod(r.Or, false)
	case r.Not != nil:
		return branches(*r.Not, !neg)
	case r.If != nil && r.Else == nil:
		if neg {
			return branches(*r.If, false) + branches(*r.Then, true)
		}
		return branches(*r.If, true) * branches(*r.Then, false)
	case r.If != nil:
		a := branches(*r.If, true) * branches(*r.Then, false)
		b := branches(*r.If, false) * branches(*r.Else, false)
		if neg {
			a = branches(*r.If, false) + branches(*r.Then, true)
			b = branches(*r.If, true) + branches(*r.Else, true)
			return a * b
		}
		return a + b
	case r.Nested != nil:
		return 1 + branches(*r.Nested, false)/4
	}
	return 1
}

var maxBranches = 40

// wideOr: an `or` (or its dual, a negated `and`) over 3..6 alternatives, each a conjunction of 1..3 literals —
// the shape whose expansion is a cross product of branch sets
func (rg *ruleGen) wideOr() Rule {
	g := rg.g
	k := 3 + g.n(4)
	var alts []Rule
	for i := 0; i < k; i++ {
		m := 1 + g.n(3)
		var lits []Rule
		for j := 0; j < m; j++ {
			l := rg.atom()
			if g.coin(0.3) {
				l = Rule{Not: &Rule{Atom: l.Atom}}
			}
			lits = append(lits, l)
		}
		if m == 1 {
			alts = append(alts, lits[0])
		} else {
			alts = append(alts, Rule{And: lits})
		}
	}
	rg.used["wideOr"]++
	if g.coin(0.25) {
		// the dual spelling: not(and(not a1, ...))
		var negs []Rule
		for _, a := range alts {
			x := a
			negs = append(negs, Rule{Not: &x})
		}
		return Rule{Not: &Rule{And: negs}}
	}
	return Rule{Or: alts}
}

// rule draws a formula whose expansion stays small enough to compile in seconds
func (rg *ruleGen) rule(depth int) Rule {
	if depth >= 2 && rg.g.coin(0.2) {
		for k := 0; k < 20; k++ {
			r := rg.wideOr()
			if branches(r, false) <= maxBranches*2 {
				return r
			}
		}
	}
	for {
		r := rg.rule0(depth)
		if branches(r, false) <= maxBranches {
			return r
		}
	}
}

func (rg *ruleGen) rule0(depth int) Rule {
	g := rg.g
	if depth <= 0 || g.coin(0.25) {
		return rg.atom()
	}
	x := g.n(100)
	switch {
	case x < 22:
		rg.used["and"]++
		k := 2 + g.n(3)
		var body []Rule
		for i := 0; i < k; i++ {
			body = append(body, rg.rule0(depth-1))
		}
		return Rule{And: body}
	case x < 44:
		rg.used["or"]++
		k := 2 + g.n(3)
		var body []Rule
		for i := 0; i < k; i++ {
			body = append(body, rg.rule0(depth-1))
		}
		return Rule{Or: body}
	case x < 62:
		rg.used["not"]++
		r := rg.rule0(depth - 1)
		return Rule{Not: &r}
	case x < 74:
		rg.used["if"]++
		i, t := rg.rule0(depth-1), rg.rule0(depth-1)
		return Rule{If: &i, Then: &t}
	case x < 86:
		rg.used["ifelse"]++
		i, t, e := rg.rule0(depth-1), rg.rule0(depth-1), rg.rule0(depth-1)
		return Rule{If: &i, Then: &t, Else: &e}
	default:
		if rg.nPaths == 0 {
			return rg.atom()
		}
		inner := rg.rule0(depth - 1)
		r := Rule{Nested: &inner, PathIx: ip(g.n(rg.nPaths))}
		if g.coin(0.55) {
			rg.used["quantified"]++
			r.Q = &Quant{Op: g.pick([]string{"ge", "le", "eq"}), K: g.n(4)}
		} else {
			rg.used["nested"]++
		}
		return r
	}
}

// Stream "tt": propositional skeleton over k classical atoms (minCount 1 on distinct properties);
// the graph holds one target node per truth assignment.
func genC01TruthTable(g *G, id int) C01Case {
	k := 1 + g.n(5)
	c := C01Case{Op: "c01", Id: id, Stream: "tt"}
	for j := 0; j < k; j++ {
		c.Atoms = append(c.Atoms, Atom{Kind: "minCount", Path: PP(fmt.Sprintf("a%d", j), false), Arg: i64p(1)})
	}
	rg := &ruleGen{g: g, nAtoms: k, used: map[string]int{}}
	nv := 1 + g.n(2)
	for v := 0; v < nv; v++ {
		c.Validations = append(c.Validations, Validation{Name: fmt.Sprintf("v%d", v), Class: NS + "T", Rule: rg.rule(2 + g.n(4))})
	}
	for m := 0; m < (1 << k); m++ {
		n := Node{Id: nodeId(m), Types: []string{NS + "T"}, Props: []Prop{}}
		for j := 0; j < k; j++ {
			if m&(1<<j) != 0 {
				n.Props = append(n.Props, Prop{Iri: NS + fmt.Sprintf("a%d", j), Vals: []Val{VI(1)}})
			}
		}
		c.Graph = append(c.Graph, n)
	}
	return c
}

var atomKinds = []string{"minCount", "maxCount", "exactCount", "minLength", "maxLength", "exactLength", "in",
	"containsAll", "containsSome", "minInclusive", "minExclusive", "maxInclusive", "maxExclusive",
	"lessThanProperty", "lessThanOrEqualsToProperty", "equalsToProperty", "disjointWithProperty", "datatype", "pattern", "uniqueValues", "moreThanProperty", "moreThanOrEqualsToProperty"}

func (g *G) randAtom(countOnly bool) Atom {
	p := g.path(g.n(3))
	kind := g.pick(atomKinds)
	if countOnly {
		kind = g.pick(atomKinds[:3])
	}
	a := Atom{Kind: kind, Path: p}
	switch kind {
	case "minCount", "maxCount", "exactCount":
		a.Arg = i64p(int64(g.n(4)))
	case "minLength", "maxLength", "exactLength":
		a.Arg = i64p(int64(g.n(4)))
	case "in", "containsAll", "containsSome":
		k := 1 + g.n(3)
		if g.coin(0.08) {
			k = 0 // the empty list: nothing is allowed / nothing is required
		}
		seen := map[string]bool{}
		for i := 0; i < k; i++ {
			var s string
			switch g.n(4) {
			case 0:
				s = fmt.Sprint(g.n(7) - 2)
			case 1:
				s = g.pick([]string{"true", "false"})
			case 2:
				s = nodeId(g.n(6))
			default:
				s = g.pick(strPool)
			}
			if !seen[s] {
				seen[s] = true
				a.Vals = append(a.Vals, s)
			}
		}
		if len(a.Vals) > 0 && g.coin(0.15) {
			a.Vals = append(a.Vals, a.Vals[g.n(len(a.Vals))]) // a value listed twice means what it means listed once
		}
	case "minInclusive", "minExclusive", "maxInclusive", "maxExclusive":
		a.Arg = i64p(g.intValue())
	case "lessThanProperty", "lessThanOrEqualsToProperty", "equalsToProperty", "disjointWithProperty", "moreThanProperty", "moreThanOrEqualsToProperty":
		// node objects (reached by a final inverse step) compare structurally in OPA; not modelled
		q := noInverse(g.path(g.n(2)))
		a.Other = &q
		a.Path = noInverse(a.Path)
	case "datatype":
		a.Dt = "http://www.w3.org/2001/XMLSchema#" + g.pick([]string{"string", "integer", "boolean", "float", "string", "integer", "boolean", "float", "long", "int", "short", "byte", "double", "anyURI"})
	case "pattern":
		a.Lit = g.pick([]string{"a", "b", "c", "dd", "1", "true", "cc"})
		a.AnchorStart, a.AnchorEnd = g.coin(0.5), g.coin(0.5)
	case "uniqueValues":
		u := g.coin(0.8)
		a.UArg = &u
	}
	return a
}

// Stream "graph": random graph, random atoms over random paths, nested/quantified rules.
// countOnly=true keeps only cardinality atoms, which are classical on every graph.
func genC01Graph(g *G, id int, countOnly bool) C01Case {
	c := C01Case{Op: "c01", Id: id, Stream: "graph"}
	if countOnly {
		c.Stream = "graphcount"
	}
	nAtoms := 1 + g.n(4)
	for j := 0; j < nAtoms; j++ {
		c.Atoms = append(c.Atoms, g.randAtom(countOnly))
	}
	nPaths := 1 + g.n(2)
	for j := 0; j < nPaths; j++ {
		c.Paths = append(c.Paths, g.path(g.n(3)))
	}
	rg := &ruleGen{g: g, nAtoms: nAtoms, nPaths: nPaths, used: map[string]int{}}
	nv := 1 + g.n(2)
	for v := 0; v < nv; v++ {
		cls := NS + "T"
		if g.coin(0.25) {
			cls = NS + "U"
		}
		c.Validations = append(c.Validations, Validation{Name: fmt.Sprintf("v%d", v), Class: cls, Rule: rg.rule(1 + g.n(4))})
	}
	// literal-only values for the comparison atoms: objects compare by structure in OPA, not modelled
	c.Graph = g.graph(3+g.n(5), 0.45)
	if id%4 == 1 {
		// one predicate lives in the a.ml core vocabulary and the profile reaches it through the BUILT-IN alias `core`, which it does
		// not declare: what that alias means does not depend on what other profiles of the process bound it to
		local := g.pick(propPool)
		for k := range c.Atoms {
			moveToCore(c.Graph, &c.Atoms[k].Path, local)
			if c.Atoms[k].Other != nil {
				moveToCore(c.Graph, c.Atoms[k].Other, local)
			}
		}
		for k := range c.Paths {
			moveToCore(c.Graph, &c.Paths[k], local)
		}
	}
	return c
}

// Stream "atoms": every atom alone and under `not`, to tie the per-constraint semantics.
func genC01Atoms(g *G, id int) C01Case {
	c := C01Case{Op: "c01", Id: id, Stream: "atoms"}
	bigInts = id%3 == 2
	defer func() { bigInts = false }()
	nAtoms := 2 + g.n(3)
	for j := 0; j < nAtoms; j++ {
		c.Atoms = append(c.Atoms, g.randAtom(false))
		c.Validations = append(c.Validations,
			Validation{Name: fmt.Sprintf("a%d", j), Class: NS + "T", Rule: Rule{Atom: ip(j)}},
			Validation{Name: fmt.Sprintf("n%d", j), Class: NS + "T", Rule: Rule{Not: &Rule{Atom: ip(j)}}})
	}
	c.Graph = g.graph(3+g.n(5), 0.45)
	if id%7 == 3 {
		// list constraints whose list names a value twice, or one scalar in two spellings
		p0 := PP(g.pick(propPool), false)
		lists := [][]string{{"cc", "ddd", "cc"}, {"1", "true", "1", "true"}, {"a", "a"}, {"b", "cc", "b", "ddd", "cc"}}
		for k, kind := range []string{"containsSome", "containsAll"} {
			if k < len(c.Atoms) {
				c.Atoms[k] = Atom{Kind: kind, Path: p0, Vals: lists[g.n(len(lists))]}
			}
		}
	}
	if id%7 == 5 {
		// list and pattern constraints over texts a quoting function could mangle (a backslash before a letter that would be an
		// escape, the character that escape stands for, quotes, a percent verb), on a graph that holds those very texts and their
		// look-alikes: a listed value is matched as written
		texts := []string{"C:\\temp\\new", "C:\temp\new", "a\\\"b", "a\"b", "100%d", "q\\u0041", "qA", "back\\\\slash", "back\\slash"}
		p0 := PP(g.pick(propPool), false)
		for k, kind := range []string{"in", "containsSome", "containsAll"} {
			if k < len(c.Atoms) {
				off := g.n(len(texts))
				c.Atoms[k] = Atom{Kind: kind, Path: p0, Vals: []string{texts[off], texts[(off+3)%len(texts)]}}
			}
		}
		for k := range c.Graph {
			var vals []Val
			for j := 0; j < 1+g.n(3); j++ {
				vals = append(vals, VS(texts[g.n(len(texts))]))
			}
			setProp(&c.Graph[k], *p0.P, vals)
		}
	}
	if id%7 == 1 {
		// near-twins as SIBLINGS of one connective: two list constraints of one kind on one property whose lists read alike once
		// joined ("x,y" as one value against "x" and "y"; "1" twice against "1" and "1.0" is left out: numbers are texts here), in
		// both operand orders, under or / and / the De Morgan twin. Each operand counts: a node may satisfy one and not the other.
		texts := []string{"x,y", "x", "y", "x, y", "z"}
		p0 := PP(g.pick(propPool), false)
		kind := g.pick([]string{"in", "containsSome", "containsAll"})
		a, b := len(c.Atoms), len(c.Atoms)+1
		c.Atoms = append(c.Atoms, Atom{Kind: kind, Path: p0, Vals: []string{"x,y"}}, Atom{Kind: kind, Path: p0, Vals: []string{"x", "y"}})
		A, B := Rule{Atom: ip(a)}, Rule{Atom: ip(b)}
		c.Validations = append(c.Validations,
			Validation{Name: "twinOr", Class: NS + "T", Rule: Rule{Or: []Rule{A, B}}},
			Validation{Name: "twinOrRev", Class: NS + "T", Rule: Rule{Or: []Rule{B, A}}},
			Validation{Name: "twinAnd", Class: NS + "T", Rule: Rule{And: []Rule{A, B}}},
			Validation{Name: "twinDeMorgan", Class: NS + "T", Rule: Rule{Not: &Rule{And: []Rule{{Not: &A}, {Not: &B}}}}},
			Validation{Name: "twinNor", Class: NS + "T", Rule: Rule{Not: &Rule{Or: []Rule{B, A}}}})
		for k := range c.Graph {
			// single-valued, so that the per-value atoms are classical
			setProp(&c.Graph[k], *p0.P, []Val{VS(texts[(k+id)%len(texts)])})
		}
	}
	if bigInts {
		// numeric constraints and comparisons over the big values: make sure some atoms are numeric
		p0, p1 := PP(g.pick(propPool), false), PP(g.pick(propPool), false)
		c.Atoms[0] = Atom{Kind: g.pick([]string{"minInclusive", "minExclusive", "maxInclusive", "maxExclusive"}), Path: p0, Arg: i64p(g.intValue())}
		c.Atoms[1] = Atom{Kind: g.pick([]string{"lessThanProperty", "lessThanOrEqualsToProperty", "equalsToProperty", "moreThanProperty"}), Path: p0, Other: &p1}
	}
	return c
}

func genC01(g *G, n int, out io.Writer, stream string) {
	enc := json.NewEncoder(out)
	for i := 0; i < n; i++ {
		var c C01Case
		switch stream {
		case "tt":
			c = genC01TruthTable(g, i)
		case "graphcount":
			c = genC01Graph(g, i, true)
		case "atoms":
			c = genC01Atoms(g, i)
		case "scopes":
			c = genC01Scopes(g, i)
		default:
			c = genC01Graph(g, i, false)
		}
		prof := ProfileSpec{Name: fmt.Sprintf("c01_%s_%d", stream, i), Atoms: c.Atoms, Paths: c.Paths, Validations: c.Validations}
		c.Profile = prof.Render()
		c.Data = c.Graph.RenderFlat()
		c.Tree = treeOf(c.Profile)
		enc.Encode(c)
	}
}

func noInverse(p Path) Path {
	q := p
	q.Inv = false
	if p.Seq != nil {
		q.Seq = nil
		for _, x := range p.Seq {
			q.Seq = append(q.Seq, noInverse(x))
		}
	}
	if p.Alt != nil {
		q.Alt = nil
		for _, x := range p.Alt {
			q.Alt = append(q.Alt, noInverse(x))
		}
	}
	return q
}

// Stream "scopes": two or three nested / quantified constraints over DIFFERENT paths, each wrapped in one of the connective
// contexts (bare, not, if-part, then-part, else-part, inside and, inside or), combined by or / and / not-and / if-then /
// if-then-else in both operand orders: every way two quantified variables can end up in one generated rule body.
// Cardinality atoms only, so the classical reading is the specification on every graph.
// wide: one validation with 24..31 nested / quantified constraints, each over a property of its own (every one takes a fresh
// variable: the 25th and later ones come after the one-letter names); three parents whose children fail different ones
func genC01Wide(g *G, id int) C01Case {
	c := C01Case{Op: "c01", Id: id, Stream: "scopes"}
	k := 24 + g.n(8)
	c.Atoms = []Atom{{Kind: "minCount", Path: PP("q", false), Arg: i64p(1)}}
	good, bad := Node{Id: nodeId(100), Types: []string{NS + "K"}, Props: []Prop{{NS + "q", []Val{VS("x")}}}}, Node{Id: nodeId(101), Types: []string{NS + "K"}, Props: []Prop{{NS + "r", []Val{VS("y")}}}}
	var body []Rule
	for j := 0; j < k; j++ {
		c.Paths = append(c.Paths, PP(fmt.Sprintf("c%d", j), false))
		r := Rule{Nested: &Rule{Atom: ip(0)}, PathIx: ip(j)}
		if j%5 == 3 {
			r.Q = &Quant{Op: "ge", K: 1}
		}
		body = append(body, r)
	}
	rule := Rule{And: body}
	if g.coin(0.3) {
		rule = Rule{Or: body}
	}
	c.Validations = []Validation{{Name: "v0", Class: NS + "T", Rule: rule}}
	for t := 0; t < 4; t++ {
		n := Node{Id: nodeId(t), Types: []string{NS + "T"}, Props: []Prop{}}
		failAt := []int{g.n(k + 1), 22 + g.n(6), 23 + g.n(4), k}[g.n(4)] // k = none fails; the positions around the 25th variable get extra weight
		for j := 0; j < k; j++ {
			kid := good.Id
			if j == failAt || (t == 3 && g.coin(0.5)) {
				kid = bad.Id
			}
			n.Props = append(n.Props, Prop{Iri: NS + fmt.Sprintf("c%d", j), Vals: []Val{VR(kid)}})
		}
		c.Graph = append(c.Graph, n)
	}
	c.Graph = append(c.Graph, good, bad)
	return c
}

func genC01Scopes(g *G, id int) C01Case {
	if id%8 == 7 {
		return genC01Wide(g, id)
	}
	c := C01Case{Op: "c01", Id: id, Stream: "scopes"}
	nA := 3
	for j := 0; j < nA; j++ {
		c.Atoms = append(c.Atoms, Atom{Kind: g.pick([]string{"minCount", "maxCount", "exactCount"}), Path: PP(g.pick(propPool), false), Arg: i64p(int64(g.n(3)))})
	}
	perm := g.r.Perm(len(propPool))
	for k := 0; k < 3; k++ {
		c.Paths = append(c.Paths, PP(propPool[perm[k%len(perm)]], g.coin(0.2)))
	}
	nested := func(k int) Rule {
		inner := Rule{Atom: ip(g.n(nA))}
		if g.coin(0.3) {
			inner = Rule{Not: &Rule{Atom: inner.Atom}}
		}
		if g.coin(0.5) {
			// compound inner formulas: several failure branches per reached node, partially satisfied conjunctions
			a, b, c2 := Rule{Atom: ip(0)}, Rule{Atom: ip(1)}, Rule{Atom: ip(2)}
			nb := Rule{Not: &Rule{Atom: ip(1)}}
			switch g.n(6) {
			case 0:
				inner = Rule{Or: []Rule{{And: []Rule{a, b}}, c2}}
			case 1:
				inner = Rule{And: []Rule{{Or: []Rule{a, c2}}, {Or: []Rule{b, c2}}}}
			case 2:
				inner = Rule{If: &a, Then: &b, Else: &c2}
			case 3:
				inner = Rule{Or: []Rule{{And: []Rule{a, nb}}, {And: []Rule{b, c2}}}}
			case 4:
				in2 := Rule{Or: []Rule{{And: []Rule{a, b}}, c2}}
				inner = Rule{Not: &in2}
			default:
				inner = Rule{Or: []Rule{{If: &a, Then: &c2}, {And: []Rule{b, a}}}}
			}
		}
		r := Rule{Nested: &inner, PathIx: ip(k)}
		if g.coin(0.4) {
			r.Q = &Quant{Op: g.pick([]string{"ge", "le", "eq"}), K: g.n(3)}
		}
		return r
	}
	wrap := func(r Rule) Rule {
		a := Rule{Atom: ip(g.n(nA))}
		b := Rule{Atom: ip(g.n(nA))}
		switch g.n(8) {
		case 0:
			return Rule{Not: &r}
		case 1:
			return Rule{If: &r, Then: &a}
		case 2:
			return Rule{If: &a, Then: &r}
		case 3:
			return Rule{If: &a, Then: &b, Else: &r}
		case 4:
			return Rule{If: &r, Then: &a, Else: &b}
		case 5:
			return Rule{And: []Rule{a, r}}
		case 6:
			return Rule{Or: []Rule{r, a}}
		}
		return r
	}
	k := 2 + g.n(2)
	var parts []Rule
	for j := 0; j < k; j++ {
		parts = append(parts, wrap(nested(j%3)))
	}
	g.r.Shuffle(len(parts), func(a, b int) { parts[a], parts[b] = parts[b], parts[a] })
	var rule Rule
	switch g.n(6) {
	case 0:
		rule = Rule{And: parts}
	case 1:
		inner := Rule{And: parts}
		rule = Rule{Not: &inner}
	case 2:
		rule = Rule{If: &parts[0], Then: &parts[1]}
		if len(parts) > 2 {
			rule.Else = &parts[2]
		}
	case 3:
		inner := Rule{Or: parts}
		rule = Rule{Not: &inner}
	default:
		rule = Rule{Or: parts}
	}
	for branches(rule, false) > 60 {
		parts = parts[:len(parts)-1]
		rule = Rule{Or: parts}
		if len(parts) < 2 {
			break
		}
	}
	c.Validations = []Validation{{Name: "v0", Class: NS + "T", Rule: rule}}
	c.Graph = g.graph(3+g.n(4), 0.6)
	return c
}
