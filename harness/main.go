package main

import (
	"fmt"
	"math/rand"
	"os"
	"strconv"
)

func repoDir() string {
	if d := os.Getenv("VERIF_REPO"); d != "" {
		return d
	}
	return "/repo"
}

func usage() {
	fmt.Fprintln(os.Stderr, "usage: acvh gen <prop> <n> [seed] | impl | extract <outdir>")
	os.Exit(2)
}

func main() {
	if len(os.Args) < 2 {
		usage()
	}
	switch os.Args[1] {
	case "gen":
		if len(os.Args) < 4 {
			usage()
		}
		n, _ := strconv.Atoi(os.Args[3])
		seed := int64(1)
		if len(os.Args) > 4 {
			seed, _ = strconv.ParseInt(os.Args[4], 10, 64)
		}
		g := &G{r: rand.New(rand.NewSource(seed))}
		switch os.Args[2] {
		case "c02":
			genC02(g, n, os.Stdout)
		case "c12":
			genC12(g, n, os.Stdout)
		case "c05":
			genC05(g, n, os.Stdout)
		case "parse":
			genParse(g, repoDir(), n, os.Stdout)
		case "c15":
			genC15(g, n, os.Stdout)
		case "c07":
			genC07(g, n, os.Stdout, len(os.Args) > 5 && os.Args[5] == "full")
		case "c08":
			genC08(g, n, os.Stdout, n > 1)
		case "c06":
			genC06(g, n, os.Stdout)
		case "c14":
			genC14(g, n, os.Stdout)
		case "c13":
			genC13(g, n, os.Stdout)
		case "c16":
			genC16(g, n, os.Stdout, len(os.Args) > 5 && os.Args[5] == "exhaustive")
		case "cli":
			genCli(g, n, os.Stdout)
		case "c03":
			genC03(g, n, os.Stdout)
		case "ms":
			genMs(g, n, os.Stdout)
		case "hist":
			genHist(g, n, os.Stdout)
		case "fuzz":
			genFuzz(g, repoDir(), n, os.Stdout)
		case "pipe":
			genPipe(g, repoDir(), os.Stdout, n > 1)
		case "c01":
			stream := "tt"
			if len(os.Args) > 5 {
				stream = os.Args[5]
			}
			genC01(g, n, os.Stdout, stream)
		default:
			usage()
		}
	case "render":
		runRender(os.Stdin, os.Stdout)
	case "oneshot":
		var perm int64
		if len(os.Args) > 2 {
			perm, _ = strconv.ParseInt(os.Args[2], 10, 64)
		}
		runOneshot(os.Stdin, perm)
	case "solojob":
		runSoloJob(os.Stdin)
	case "racestress":
		seed, _ := strconv.ParseInt(os.Args[2], 10, 64)
		gr, _ := strconv.Atoi(os.Args[3])
		calls, _ := strconv.Atoi(os.Args[4])
		runRaceStress(seed, gr, calls)
	case "impl":
		runImpl(os.Stdin, os.Stdout)
	case "extract":
		if len(os.Args) < 5 {
			usage()
		}
		runExtract(os.Args[2], os.Args[3], os.Args[4])
	default:
		usage()
	}
}
