package main

import (
	"crypto/sha256"
	"encoding/json"
	"fmt"
	"github.com/aml-org/amf-custom-validator/pkg/config"
	"io"
	"math/rand"
	"os"
	"strings"

	"github.com/aml-org/amf-custom-validator/pkg/verifhook"
)

// oneshot: in THIS fresh process, generate the Rego for every case read from stdin and validate it once
// (fixed clock); print one line per case with the hashes. Run several times, the lines must be identical.
func runOneshot(in io.Reader, permSeed int64) {
	dec := json.NewDecoder(in)
	var cases []caseHead
	for {
		var h caseHead
		if err := dec.Decode(&h); err != nil {
			break
		}
		cases = append(cases, h)
	}
	if permSeed != 0 {
		// a different history in this process: same calls, other order, every case twice
		r := rand.New(rand.NewSource(permSeed))
		cases = append(cases, cases...)
		r.Shuffle(len(cases), func(a, b int) { cases[a], cases[b] = cases[b], cases[a] })
	}
	for _, h := range cases {
		res := map[string]any{"id": h.Id}
		func() {
			defer func() {
				if r := recover(); r != nil {
					res["panic"] = fmt.Sprint(r)
				}
			}()
			_, code, err := verifhook.GenerateRego(h.Profile, nil)
			if err != nil {
				res["generate"] = "error: " + err.Error()
			} else {
				res["generate"] = fmt.Sprintf("%x", sha256.Sum256([]byte(code)))
			}
			data := h.Data
			if len(h.CtxFiles) > 0 {
				if dir, err := os.MkdirTemp("", "acvsolo"); err == nil {
					defer os.RemoveAll(dir)
					for f, text := range h.CtxFiles {
						os.WriteFile(dir+"/"+f, []byte(text), 0644)
					}
					data = strings.ReplaceAll(data, "__CTX__", dir)
				}
			}
			o := validateAt(h.Profile, data, rcOf(h), clockOf(h))
			res["validate"] = o.Kind + ":" + fmt.Sprintf("%x", sha256.Sum256([]byte(o.Report)))
		}()
		b, _ := json.Marshal(res)
		fmt.Println(string(b))
	}
	_ = os.Stdout
}

const coreNS = "http://a.ml/vocabularies/core#"

// two profiles that use the SAME prefix name for different namespaces: one declares it, the other relies on
// the built-in default
func prefixPair(i int) []caseHead {
	data := `[{"@id":"http://ex.org/n/1","@type":["` + NS + `T"],"` + NS + `name":"x"},{"@id":"http://ex.org/n/2","@type":["` + NS + `T"],"` + coreNS + `name":"y"}]`
	a := fmt.Sprintf("profile: pair_%d_a\nprefixes:\n  ex: %s\n  core: %s\nviolation:\n  - v\nvalidations:\n  v:\n    targetClass: ex.T\n    message: m\n    propertyConstraints:\n      core.name:\n        minCount: 1\n", i, NS, NS)
	b := fmt.Sprintf("profile: pair_%d_b\nprefixes:\n  ex: %s\nviolation:\n  - v\nvalidations:\n  v:\n    targetClass: ex.T\n    message: m\n    propertyConstraints:\n      core.name:\n        minCount: 1\n", i, NS)
	return []caseHead{{Op: "c06", Id: 500 + 2*i, Profile: a, Data: data}, {Op: "c06", Id: 501 + 2*i, Profile: b, Data: data}}
}

// c06 cases: several quantified/nested constraints under ONE propertyConstraints map, each also with
// several constraint keys, plus prefixes declared in several orders
func genC06(g *G, n int, out io.Writer) {
	enc := json.NewEncoder(out)
	for i := 0; i < n; i++ {
		k := 2 + g.n(7)
		var w yw
		w.line(0, fmt.Sprintf("profile: c06_%d", i))
		w.line(0, "prefixes:")
		for _, p := range []string{"ex", "ex2", "zz", "aa"} {
			w.line(1, p+": "+NS)
		}
		w.line(0, "violation:")
		w.line(1, "- v")
		w.line(1, "- w")
		w.line(0, "validations:")
		for _, vn := range []string{"w", "v"} {
			w.line(1, vn+":")
			w.line(2, "targetClass: ex.T")
			w.line(2, "message: m")
			w.line(2, "propertyConstraints:")
			for j := 0; j < k; j++ {
				// distinct keys: the same property through distinct (equivalent) path spellings
				key := fmt.Sprintf("ex.p%d", j)
				if j >= 4 {
					key = fmt.Sprintf("ex.p%d | ex2.p%d", j%4, (j+1)%4)
				}
				w.line(3, yq(key)+":")
				kinds := []string{"nested", "atLeast", "atMost"}
				g.r.Shuffle(len(kinds), func(a, b int) { kinds[a], kinds[b] = kinds[b], kinds[a] })
				for _, kind := range kinds[:1+g.n(3)] {
					ind := 5
					if kind == "nested" {
						w.line(4, "nested:")
					} else {
						w.line(4, kind+":")
						w.line(5, fmt.Sprintf("count: %d", g.n(3)))
						w.line(5, "validation:")
						ind = 6
					}
					w.line(ind, "propertyConstraints:")
					w.line(ind+1, fmt.Sprintf("ex.p%d:", g.n(4)))
					w.line(ind+2, fmt.Sprintf("minCount: %d", g.n(3)))
					if g.coin(0.5) {
						w.line(ind+2, fmt.Sprintf("maxCount: %d", 1+g.n(3)))
					}
				}
			}
		}
		c := caseHead{Op: "c06", Id: i, Profile: w.b.String(), Data: g.graph(3+g.n(4), 0.7).RenderFlat()}
		enc.Encode(c)
	}
	for i := 0; i < 2; i++ {
		for _, c := range prefixPair(i) {
			enc.Encode(c)
		}
	}
	// the same profile and data under report configurations that agree in one field and differ in another: the report for
	// one configuration must not depend on which other configurations the process has served
	{
		def := config.DefaultReportConfiguration()
		base := caseHead{Op: "c06", Profile: prefixPair(9)[1].Profile, Data: prefixPair(9)[1].Data}
		rcs := []caseRC{
			{def.ReportSchemaIri, def.LexicalSchemaIri, true, ""},
			{def.ReportSchemaIri, "http://tenant-b.example.org/dialects/lexical-2.yaml", true, ""},
			{"http://tenant-b.example.org/dialects/report-2.yaml", def.LexicalSchemaIri, true, ""},
			{def.ReportSchemaIri, def.LexicalSchemaIri, false, ""},
			{"", "", true, ""},
			{def.ReportSchemaIri, "", false, ""},
			// constant clocks at unusual instants: the zero time, the Unix epoch, a far future, a zoned instant
			{def.ReportSchemaIri, def.LexicalSchemaIri, true, "0001-01-01T00:00:00Z"},
			{def.ReportSchemaIri, def.LexicalSchemaIri, true, "1970-01-01T00:00:00Z"},
			{def.ReportSchemaIri, def.LexicalSchemaIri, true, "9999-12-31T23:59:59Z"},
			{def.ReportSchemaIri, def.LexicalSchemaIri, true, "2024-02-29T23:59:60+05:30"},
		}
		for k := range rcs {
			c := base
			c.Id = 700 + k
			c.RC = &rcs[k]
			enc.Encode(c)
			// and with conforming data (another context table)
			c.Id = 720 + k
			c.Data = "[]"
			enc.Encode(c)
		}
	}
	// source maps: the same element described by entries in several source-map nodes (declaration and use site);
	// whichever entry the index keeps, it must be the same one in every run
	for i := 0; i < 3; i++ {
		var nodes []map[string]any
		for k := 0; k < 3; k++ {
			nodes = append(nodes, map[string]any{"@id": nodeId(k), "@type": []string{NS + "T"}})
		}
		for m := 0; m < 4+i; m++ {
			lid := fmt.Sprintf("%ssm/%d/lexical/e", NodeNS, m)
			nodes = append(nodes, map[string]any{"@id": fmt.Sprintf("%ssm/%d", NodeNS, m), "@type": []string{SM + "SourceMap"}, SM + "lexical": []any{map[string]any{"@id": lid}}})
			nodes = append(nodes, map[string]any{"@id": lid, SM + "element": nodeId(m % 3), SM + "value": fmt.Sprintf("[(%d,%d)-(%d,%d)]", m+1, m+2, m+10, m+3)})
		}
		nodes = append(nodes, map[string]any{"@id": NodeNS + "info", "@type": []string{DOC + "BaseUnitSourceInformation"}, DOC + "rootLocation": "file:///root.raml"})
		b, _ := json.Marshal(nodes)
		enc.Encode(caseHead{Op: "c06", Id: 600 + i, Profile: okProfile, Data: string(b)})
	}
}
