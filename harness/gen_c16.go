package main

import (
	"encoding/json"
	"io"
	"strings"
)

type C16Case struct {
	Op   string `json:"op"`
	Id   int    `json:"id"`
	Kind string `json:"kind"`
	Text string `json:"text"`
	// for a generated sentence: the same path with canonical spacing (no optional whitespace, one blank around `/`); both
	// spellings are the same path, so they are accepted alike and parse to the same structure
	Canon string `json:"canon,omitempty"`
}

var wsPool = []string{"", " ", "  ", "\t", "\n", "\r", " \r\n ", "\r\t", "\n\n"}
var iriPool = []string{"ex.a", "ex.b", "a-b.c_d", "x1.y/z", "ex.a.b", "ex.a\\/b", "A.B", "0.0", "_.-"}

func (g *G) ws(must bool) string {
	w := g.pick(wsPool)
	if must && w == "" {
		return " "
	}
	return w
}

// sentence renders a random path with random optional whitespace and redundant parentheses; canon is the same path (same
// parentheses) without optional whitespace
func (g *G) sentence(depth int, level int) (text string, endsIri bool) {
	t, _, e := g.sentence2(depth, level)
	return t, e
}

func (g *G) sentence2(depth int, level int) (text, canon string, endsIri bool) {
	// level 0: expression (seq), 1: term (alt), 2: factor
	switch {
	case level == 2 || depth <= 0:
		if depth > 0 && g.coin(0.25) {
			inner, innerC, _ := g.sentence2(depth-1, 0)
			return "(" + g.ws(false) + inner + g.ws(false) + ")", "(" + innerC + ")", false
		}
		if g.coin(0.1) {
			return "@type", "@type", false
		}
		s := g.pick(iriPool)
		switch g.n(6) {
		case 0:
			return s + g.ws(false) + "^", s + "^", false
		case 1:
			return s + g.ws(false) + "*", s + "*", false
		}
		return s, s, true
	case level == 1:
		k := 1 + g.n(3)
		var parts, partsC []string
		last := false
		for i := 0; i < k; i++ {
			p, pc, e := g.sentence2(depth-1, 2)
			if i > 0 {
				// "|" is not an IRI character: no whitespace needed
				parts = append(parts, g.ws(false)+"|"+g.ws(false))
				partsC = append(partsC, "|")
			}
			parts = append(parts, p)
			partsC = append(partsC, pc)
			last = e
		}
		return strings.Join(parts, ""), strings.Join(partsC, ""), last
	default:
		k := 1 + g.n(3)
		var sb, sc strings.Builder
		last := false
		for i := 0; i < k; i++ {
			p, pc, e := g.sentence2(depth-1, 1)
			if i > 0 {
				// "/" IS an IRI character: after an IRI at least one whitespace is needed
				sb.WriteString(g.ws(last) + "/" + g.ws(false))
				sc.WriteString(" / ")
			}
			sb.WriteString(p)
			sc.WriteString(pc)
			last = e
		}
		return sb.String(), sc.String(), last
	}
}

// the grammar's own characters (all four whitespace characters included) plus near misses: other control and
// space characters, punctuation, non-ASCII
var pathAlphabet = []rune("ab.xe/|()^*@ \n\t\r\f\v\u00a0\u2028-_\\,\"'0Z#é:;[]{}+?!%&=<>~`$\ufffd\u3000\u2003\ufeff\u0000\U0001d4d0")

func mutations(s string, g *G, max int) []string {
	rs := []rune(s)
	var all []string
	for i := 0; i <= len(rs); i++ {
		for _, c := range pathAlphabet {
			all = append(all, string(rs[:i])+string(c)+string(rs[i:])) // insert
		}
		if i < len(rs) {
			all = append(all, string(rs[:i])+string(rs[i+1:])) // delete
			for _, c := range pathAlphabet {
				if c != rs[i] {
					all = append(all, string(rs[:i])+string(c)+string(rs[i+1:])) // replace
				}
			}
			if i+1 < len(rs) {
				all = append(all, string(rs[:i])+string(rs[i+1])+string(rs[i])+string(rs[i+2:])) // transpose
			}
		}
	}
	if max <= 0 || len(all) <= max {
		return all
	}
	var pick []string
	for i := 0; i < max; i++ {
		pick = append(pick, all[g.n(len(all))])
	}
	return pick
}

func genC16(g *G, n int, out io.Writer, exhaustive bool) {
	enc := json.NewEncoder(out)
	id := 0
	emit := func(kind, text string) {
		enc.Encode(C16Case{Op: "c16", Id: id, Kind: kind, Text: text})
		id++
	}
	fixed := []string{"", " ", "ex.a", " ex.a ", "ex.a / ex.b", "ex.a / / ex.b", "ex.a ) junk", "ex.a ex.b", "(ex.a", "ex.a)", "()", "( )",
		"ex.a,", "ex.a\"", "ex.a | ex.b^ / (ex.c|@type)", "ex.a*", "ex.a^", "ex.a ^", "ex.a^^", "ex.a^*", "@type", "@type^", "@typ", "@types",
		"ex.a|ex.b/ex.c", "ex.a/ex.b", "ex.a /ex.b", "ex.a/ ex.b", "ex.a|", "|ex.a", "/ex.a", "ex.a/", "ex.a |", "ex", "ex.", ".a", "ex..a",
		"((ex.a))", "((ex.a) / (ex.b))", "(ex.a | ex.b) | ex.c", "ex.a | (ex.b | ex.c)", "(ex.a / ex.b) / ex.c", "ex.a / (ex.b / ex.c)",
		"ex.a\n/\nex.b", "ex.a\t|\tex.b", "ex.a  / ex.b", "é.a", "ex.é", "ex.a / ex.b ^ | ex.c *",
		// redundant parentheses to any depth, operator-dense spellings without a single blank, an identifier glued to @type
		"(((a.b)))", "((((ex.a))))", "(((((@type)))))", "((((((((core.name))))))))", "(a.b)/(c.d)/(e.f)/(g.h)", "((a.b|c.d))/((e.f))", "(((a.b|c.d)))|(((e.f)))",
		"a.b|c.d|e.f|g.h|i.j|k.l|m.n|o.p", "(a.b^)/(c.d^)/(e.f^)", "x@type", "core@type", "a.b / rdf@type", "(no-dot@type | a.b)"}
	for _, s := range fixed {
		emit("fixed", s)
		if exhaustive || len(s) < 14 {
			for _, m := range mutations(s, g, 0) {
				emit("fixed-mut", m)
			}
		}
	}
	for i := 0; i < n; i++ {
		s, canon, _ := g.sentence2(1+g.n(3), 0)
		s = g.ws(false) + s + g.ws(false)
		enc.Encode(C16Case{Op: "c16", Id: id, Kind: "sentence", Text: s, Canon: canon})
		id++
		k := 25
		if exhaustive {
			k = 0
		}
		for _, m := range mutations(s, g, k) {
			emit("mutation", m)
		}
	}
}
