package main

// Runs the REAL code (pkg.* and the verif hooks) on protocol cases, one JSON line in, one out.

import (
	"bufio"
	"bytes"
	"crypto/sha256"
	"encoding/base64"
	"encoding/json"
	"fmt"
	"io"
	"os"
	"sort"
	"strings"
	"sync"
	"sync/atomic"
	"time"

	"github.com/aml-org/amf-custom-validator/pkg"
	"github.com/aml-org/amf-custom-validator/pkg/config"
	"github.com/aml-org/amf-custom-validator/pkg/events"
	"github.com/aml-org/amf-custom-validator/pkg/verifhook"
	"github.com/open-policy-agent/opa/ast"
)

type fixedClock struct{}

func (fixedClock) ReportCreationTime() time.Time {
	return time.Date(2001, time.February, 3, 4, 5, 6, 0, time.UTC)
}

type outcome struct {
	Kind   string // ok | error | panic | timeout
	Report string // a private copy of the returned text, taken the moment the call returned
	Err    string
	Raw    string // the very string the library returned (shares whatever memory the library used for it)
}

// A report is a Go string: whatever the library does later, the text a caller was handed stays what it was. The harness keeps
// the last few strings the library returned (the very strings, sharing whatever memory the library used for them) next to private
// copies taken at once, and looks again after every later call: a kept report that no longer equals its copy was changed behind
// the caller's back (a reused encoding buffer, a zero-copy conversion).
var (
	retainMu       sync.Mutex
	retainedRaw    []string
	retainedCopy   []string
	retainedChange string
)

func retain(rep string) string {
	cp := strings.Clone(rep)
	retainMu.Lock()
	defer retainMu.Unlock()
	checkRetainedLocked()
	retainedRaw = append(retainedRaw, rep)
	retainedCopy = append(retainedCopy, cp)
	if len(retainedRaw) > 12 {
		retainedRaw, retainedCopy = retainedRaw[1:], retainedCopy[1:]
	}
	return cp
}

func checkRetainedLocked() {
	for k := range retainedRaw {
		if retainedRaw[k] != retainedCopy[k] && retainedChange == "" {
			at := 0
			for at < len(retainedCopy[k]) && at < len(retainedRaw[k]) && retainedRaw[k][at] == retainedCopy[k][at] {
				at++
			}
			lo, hi := at-40, at+80
			if lo < 0 {
				lo = 0
			}
			clip := func(t string) string {
				if hi < len(t) {
					return t[lo:hi]
				}
				return t[lo:]
			}
			retainedChange = fmt.Sprintf("a report of %d bytes returned %d call(s) ago changed at byte %d after a later call: it read %q, it now reads %q",
				len(retainedCopy[k]), len(retainedRaw)-k, at, clip(retainedCopy[k]), clip(strings.Clone(retainedRaw[k])))
		}
	}
	if retainedChange != "" {
		retainedRaw, retainedCopy = nil, nil
	}
}

// takeRetainedChange reports (and clears) a change of a kept report noticed since the last call
func takeRetainedChange() string {
	retainMu.Lock()
	defer retainMu.Unlock()
	checkRetainedLocked()
	c := retainedChange
	retainedChange = ""
	return c
}

// validate runs pkg.ValidateWithConfiguration under recover and a timeout.
func validate(profile, data string, rc config.ReportConfiguration) outcome {
	return validateAt(profile, data, rc, fixedClock{})
}

func validateAt(profile, data string, rc config.ReportConfiguration, clock config.ValidationConfiguration) outcome {
	ch := make(chan outcome, 1)
	go func() {
		defer func() {
			if r := recover(); r != nil {
				ch <- outcome{Kind: "panic", Err: fmt.Sprint(r)}
			}
		}()
		rep, err := pkg.ValidateWithConfiguration(profile, data, dbg(profile, data), nil, clock, rc)
		if err != nil {
			ch <- outcome{Kind: "error", Err: err.Error()}
			return
		}
		ch <- outcome{Kind: "ok", Report: retain(rep), Raw: rep}
	}()
	select {
	case o := <-ch:
		return o
	case <-time.After(callDeadline(150)):
		return outcome{Kind: "timeout"}
	}
}

// callDeadline: how long a call may take before it counts as not returning; the quick tier's inputs are small (a call takes well
// under a second), so it waits a third of the thorough tier's time
func callDeadline(seconds int) time.Duration {
	if os.Getenv("ACVH_TIER") == "quick" {
		seconds /= 3
	}
	return time.Duration(seconds) * time.Second
}

// dbg: the debug flag of the entry points is an input like any other; every case gets a fixed, content-derived value
func dbg(profile, data string) bool {
	h := 0
	for i := 0; i < len(profile); i += 7 {
		h += int(profile[i])
	}
	return (h+len(profile)+3*len(data))%2 == 1
}

func defaultRC() config.ReportConfiguration { return config.DefaultReportConfiguration() }

type caseHead struct {
	Op      string `json:"op"`
	Id      int    `json:"id"`
	Profile string `json:"profile"`
	Data    string `json:"data"`
	Fetch   bool   `json:"fetch"`
	// report configuration of the call, when the case fixes one (c06): schema IRIs and whether the date is included
	RC *caseRC `json:"rc,omitempty"`
	// context documents the data refers to as "__CTX__/<file name>" (oneshot writes them into a directory of its own)
	CtxFiles map[string]string `json:"ctxFiles,omitempty"`
}

type caseRC struct {
	Report      string `json:"report"`
	Lexical     string `json:"lexical"`
	IncludeDate bool   `json:"includeDate"`
	// the constant instant the caller's clock returns (RFC 3339; empty = the harness's usual 2001 instant)
	Clock string `json:"clock,omitempty"`
}

func clockOf(h caseHead) config.ValidationConfiguration {
	if h.RC == nil || h.RC.Clock == "" {
		return fixedClock{}
	}
	t, err := time.Parse(time.RFC3339, h.RC.Clock)
	if err != nil {
		return fixedClock{}
	}
	return clockAt{t}
}

func rcOf(h caseHead) config.ReportConfiguration {
	if h.RC == nil {
		return defaultRC()
	}
	return config.ReportConfiguration{IncludeReportCreationTime: h.RC.IncludeDate, ReportSchemaIri: h.RC.Report, LexicalSchemaIri: h.RC.Lexical}
}

func sortedKeys(m map[string]bool) []string {
	acc := []string{}
	for k := range m {
		acc = append(acc, k)
	}
	sort.Strings(acc)
	return acc
}

func asStr(v any) string {
	switch x := v.(type) {
	case string:
		return x
	case float64:
		return fmt.Sprintf("%d", int64(x))
	case bool:
		return fmt.Sprint(x)
	default:
		b, _ := json.Marshal(v)
		return string(b)
	}
}

func traces(r ResultView) []map[string]any {
	var acc []map[string]any
	ts, _ := r.Raw["trace"].([]any)
	for _, t := range ts {
		if m, ok := t.(map[string]any); ok {
			acc = append(acc, m)
		}
	}
	return acc
}

func implC02(h caseHead) map[string]any {
	o := validate(h.Profile, h.Data, defaultRC())
	res := map[string]any{"outcome": o.Kind}
	if o.Kind != "ok" {
		res["err"] = o.Err
		return res
	}
	rv, err := ReadReport(o.Report)
	if err != nil {
		res["outcome"] = "badreport"
		res["err"] = err.Error()
		return res
	}
	vals := map[string]bool{}
	count := 0
	dup := false
	other := map[string]int{}
	for _, r := range rv.Results {
		if r.Shape == "unique" {
			dup = true
		}
		for _, t := range traces(r) {
			tv, _ := t["traceValue"].(map[string]any)
			switch r.Shape {
			case "values":
				vals[asStr(tv["actual"])] = true
			case "count":
				if f, ok := tv["actual"].(float64); ok {
					count = int(f)
				}
			case "exact", "min":
				// the same number as every cardinality constraint sees it
				if f, ok := tv["actual"].(float64); ok {
					other[r.Shape] = int(f)
				}
			case "reach":
				if f, ok := tv["failedNodes"].(float64); ok {
					count = int(f)
				}
				subs, _ := tv["subResult"].([]any)
				for _, s := range subs {
					if sm, ok := s.(map[string]any); ok {
						vals[asStr(sm["focusNode"])] = true
					}
				}
			}
		}
	}
	res["values"] = sortedKeys(vals)
	res["count"] = count
	res["dup"] = dup
	res["counts"] = other
	return res
}

func implPairs(h caseHead) map[string]any {
	o := validate(h.Profile, h.Data, defaultRC())
	res := map[string]any{"outcome": o.Kind}
	if o.Kind != "ok" {
		res["err"] = o.Err
		return res
	}
	rv, err := ReadReport(o.Report)
	if err != nil {
		res["outcome"] = "badreport"
		res["err"] = err.Error()
		return res
	}
	res["reported"] = rv.Pairs()
	res["conforms"] = rv.Conforms
	return res
}

var implOps = map[string]func(h caseHead, raw []byte) map[string]any{
	"c01":    func(h caseHead, raw []byte) map[string]any { return implPairs(h) },
	"c01y":   func(h caseHead, raw []byte) map[string]any { return implPairs(h) }, // same real run; the model side reads the YAML tree instead of the abstract case
	"c02":    func(h caseHead, raw []byte) map[string]any { return implC02(h) },
	"pipe":   implPipe,
	"fuzz":   implFuzz,
	"hist":   implHist,
	"c03":    implC03,
	"cli":    implCli,
	"c16":    implC16,
	"c13":    implC13,
	"report": implReport,
	"c14":    implC14,
	"c05":    implC05,
	"parse":  implParse,
	"c15":    implC15,
	"c07":    implC07,
	"ms":     implMs,
	"c08":    func(h caseHead, raw []byte) map[string]any { return implC08(h, raw) },
}

func runImpl(in io.Reader, out io.Writer) {
	sc := bufio.NewScanner(in)
	sc.Buffer(make([]byte, 1<<20), 1<<28)
	w := bufio.NewWriter(out)
	defer w.Flush()
	// the line protocol owns the real stdout (`out`); whatever the LIBRARY prints through os.Stdout / os.Stderr is captured and
	// attached to the case during which it appeared (a library has no business writing to its host's standard streams)
	noise := captureStd()
	nLines := 0
	var history []string
	for sc.Scan() {
		line := sc.Bytes()
		if len(line) == 0 {
			continue
		}
		// the process has a history: now and then it compiles an unrelated profile that binds built-in aliases (and `ex`) to
		// namespaces of its own; no answer below may depend on that
		stuck := ""
		if nLines%5 == 2 {
			if !interfere(nLines / 5) {
				stuck = "an unrelated pkg.CompileProfile call this process made before the case did not return"
			}
		}
		nLines++
		var h caseHead
		var res map[string]any
		if err := json.Unmarshal(line, &h); err != nil {
			res = map[string]any{"outcome": "badcase", "err": err.Error()}
		} else if stuck != "" {
			res = map[string]any{"outcome": "timeout", "err": stuck}
		} else if f, ok := implOps[h.Op]; ok {
			// every op has deadlines of its own around the library calls it makes; this one is the last resort for a call made
			// outside them (a blocked call never comes back, so the goroutine is abandoned and the process replaced)
			done := make(chan map[string]any, 1)
			go func() {
				var r map[string]any
				defer func() {
					if p := recover(); p != nil {
						r = map[string]any{"outcome": "panic", "err": fmt.Sprint(p)}
					}
					done <- r
				}()
				r = f(h, append([]byte(nil), line...))
			}()
			select {
			case res = <-done:
			case <-time.After(1500 * time.Second): // (not scaled with the tier: a whole case may hold dozens of calls)
				res = map[string]any{"outcome": "timeout", "err": "the case did not come back (a library call outside the op's own deadlines blocked)"}
			}
		} else {
			res = map[string]any{"outcome": "badop"}
		}
		if o, _ := res["outcome"].(string); o == "timeout" {
			// what this process had handled before (a call that blocks may do so because of an earlier one)
			res["processHistory"] = append([]string{}, history...)
		}
		history = append(history, fmt.Sprintf("%s#%d", h.Op, h.Id))
		if len(history) > 400 {
			history = history[len(history)-400:]
		}
		res["id"] = h.Id
		if c := takeRetainedChange(); c != "" {
			res["retainedChanged"] = c
		}
		if so, se := noise(); so != "" || se != "" {
			res["libStdout"], res["libStderr"] = so, se
		}
		b, _ := json.Marshal(res)
		w.Write(b)
		w.WriteByte('\n')
		w.Flush()
		if o, _ := res["outcome"].(string); o == "timeout" {
			// a call that did not return may hold locks or burn CPU for ever: the remaining cases go to a fresh process
			w.WriteString("{\"restart\":true}\n")
			w.Flush()
			os.Exit(0)
		}
	}
}

// captureStd replaces os.Stdout and os.Stderr by pipes; the returned function yields (and clears) what was written since the last call
func captureStd() func() (string, string) {
	var mu sync.Mutex
	var bufs [2]bytes.Buffer
	start := func(k int) *os.File {
		r, wr, err := os.Pipe()
		if err != nil {
			return nil
		}
		go func() {
			tmp := make([]byte, 4096)
			for {
				n, err := r.Read(tmp)
				if n > 0 {
					mu.Lock()
					if bufs[k].Len() < 1<<16 {
						bufs[k].Write(tmp[:n])
					}
					mu.Unlock()
				}
				if err != nil {
					return
				}
			}
		}()
		return wr
	}
	if wr := start(0); wr != nil {
		os.Stdout = wr
	}
	if wr := start(1); wr != nil {
		os.Stderr = wr
	}
	return func() (string, string) {
		time.Sleep(0)
		mu.Lock()
		defer mu.Unlock()
		a, b := bufs[0].String(), bufs[1].String()
		bufs[0].Reset()
		bufs[1].Reset()
		return a, b
	}
}

var interferers = []string{
	"profile: other tenant\nprefixes:\n  core: http://example.org/inventory/core#\n  apiContract: http://example.org/inventory/api#\n  ex: http://example.org/other#\nviolation:\n  - o\nvalidations:\n  o:\n    targetClass: apiContract.EndPoint\n    message: o\n    propertyConstraints:\n      core.name / ex.p0:\n        minCount: 1\n",
	"profile: other tenant 2\nprefixes:\n  shacl: http://example.org/s#\n  doc: http://example.org/d#\n  apiExt: http://example.org/x#\n  xsd: http://example.org/xsd#\n  zz: http://ex.org/v#\nwarning:\n  - o\nvalidations:\n  o:\n    targetClass: doc.Unit\n    message: o\n    propertyConstraints:\n      shacl.name:\n        in: [a]\n      zz.p1:\n        datatype: xsd.string\n",
}

func interfere(k int) (returned bool) {
	done := make(chan bool, 1)
	go func() {
		defer func() { recover(); done <- true }()
		pkg.CompileProfile(interferers[k%len(interferers)], false, nil)
	}()
	select {
	case <-done:
		return true
	case <-time.After(callDeadline(120)):
		return false
	}
}

// ---------------------------------------------------------------- pipeline runs with an event channel

type pipeHead struct {
	Entry   int  `json:"entry"`
	Cap     *int `json:"cap"`
	StallAt *int `json:"stallAt"`
	StallMs int  `json:"stallMs"`
}

func implPipe(h caseHead, raw []byte) map[string]any {
	var ph pipeHead
	json.Unmarshal(raw, &ph)
	res := map[string]any{}
	var compiled *regoPrepared
	if ph.Entry == 1 || ph.Entry == 3 {
		c, err := compileQuiet(h.Profile)
		if err == errCompileBlocked {
			res["outcome"] = "timeout"
			res["err"] = err.Error()
			return res
		}
		if err != nil {
			res["outcome"] = "setup-failed"
			res["err"] = err.Error()
			return res
		}
		compiled = c
	}
	capacity, stallAt := -1, -1
	if ph.Cap != nil {
		capacity = *ph.Cap
	}
	if ph.StallAt != nil {
		stallAt = *ph.StallAt
	}
	obs := runWithConsumer(func(ch *chan events.Event) (string, error) {
		switch ph.Entry {
		case 0:
			return pkg.Validate(h.Profile, h.Data, dbg(h.Profile, h.Data), ch)
		case 1:
			return pkg.ValidateCompiled(compiled, h.Data, dbg(h.Profile, h.Data), ch)
		case 2:
			return pkg.ValidateWithConfiguration(h.Profile, h.Data, dbg(h.Profile, h.Data), ch, fixedClock{}, defaultRC())
		case 3:
			return pkg.ValidateCompiledWithConfiguration(compiled, h.Data, dbg(h.Profile, h.Data), ch, fixedClock{}, defaultRC())
		case 4:
			_, err := pkg.CompileProfile(h.Profile, dbg(h.Profile, h.Data), ch)
			return "", err
		}
		return "", fmt.Errorf("bad entry")
	}, capacity, stallAt, ph.StallMs)
	res["outcome"] = obs.Outcome
	res["events"] = obs.Events
	res["closes"] = obs.Closes
	res["err"] = obs.Err
	res["milestones"] = obs.Milestones
	if obs.Outcome == "ok" && ph.Entry != 4 {
		if rv, err := ReadReport(obs.Report); err == nil {
			res["conforms"] = rv.Conforms
		} else {
			res["outcome"] = "badreport"
		}
	}
	return res
}

// fuzz: any input through any entry point must give a report or an error
func implFuzzOnce(h caseHead, raw []byte) map[string]any {
	var ph pipeHead
	json.Unmarshal(raw, &ph)
	var b64 struct {
		ProfileB64 string `json:"profileB64"`
		DataB64    string `json:"dataB64"`
	}
	json.Unmarshal(raw, &b64)
	if b64.ProfileB64 != "" {
		b, _ := base64.StdEncoding.DecodeString(b64.ProfileB64)
		h.Profile = string(b)
	}
	if b64.DataB64 != "" {
		b, _ := base64.StdEncoding.DecodeString(b64.DataB64)
		h.Data = string(b)
	}
	res := map[string]any{}
	type ret struct {
		kind string
		err  string
	}
	rc := make(chan ret, 1)
	go func() {
		defer func() {
			if r := recover(); r != nil {
				rc <- ret{"panic", fmt.Sprint(r)}
			}
		}()
		var err error
		var rep string
		isReport := true
		switch ph.Entry {
		case 0:
			rep, err = pkg.Validate(h.Profile, h.Data, dbg(h.Profile, h.Data), nil)
		case 2:
			rep, err = pkg.ValidateWithConfiguration(h.Profile, h.Data, dbg(h.Profile, h.Data), nil, fixedClock{}, defaultRC())
		case 4:
			_, err = pkg.CompileProfile(h.Profile, dbg(h.Profile, h.Data), nil)
			isReport = false
		default:
			var c *regoPrepared
			c, err = pkg.CompileProfile(h.Profile, dbg(h.Profile, h.Data), nil)
			isReport = false
			if err == nil {
				isReport = true
				if ph.Entry == 1 {
					rep, err = pkg.ValidateCompiled(c, h.Data, dbg(h.Profile, h.Data), nil)
				} else {
					rep, err = pkg.ValidateCompiledWithConfiguration(c, h.Data, dbg(h.Profile, h.Data), nil, fixedClock{}, defaultRC())
				}
			}
		}
		if err != nil {
			rc <- ret{"err", err.Error()}
		} else if isReport {
			// "a report" means a report: one dialect instance encoding one validation-report node
			if _, rerr := ReadReport(rep); rerr != nil {
				rc <- ret{"noreport", fmt.Sprintf("nil error but the returned text (%d bytes) is not a report: %v", len(rep), rerr)}
			} else {
				rc <- ret{"ok", ""}
			}
		} else {
			rc <- ret{"ok", ""}
		}
	}()
	select {
	case r := <-rc:
		res["outcome"] = r.kind
		res["err"] = r.err
	case <-time.After(callDeadline(240)):
		res["outcome"] = "timeout"
	}
	return res
}

// fuzz: ... and once more when the call answered with an error: what a call left behind must not turn the same call into a
// panic, a hang or a success
func implFuzz(h caseHead, raw []byte) map[string]any {
	res := implFuzzOnce(h, raw)
	if res["outcome"] == "err" {
		again := implFuzzOnce(h, raw)
		if again["outcome"] != "err" {
			again["err"] = fmt.Sprintf("on the SECOND identical call (the first returned an error: %.120s): %v", fmt.Sprint(res["err"]), again["err"])
			if again["outcome"] == "ok" {
				again["outcome"] = "ok-after-error"
			}
			return again
		}
	}
	return res
}

// hist: a history of documents through one compiled profile vs a fresh validation of each document
type histHead struct {
	Docs      []string            `json:"docs"`
	Interfere []string            `json:"interfere"`
	RCs       []*caseRC           `json:"rcs"`
	Ctx       []map[string]string `json:"ctx"`
}

func implHist(h caseHead, raw []byte) map[string]any {
	var hh histHead
	json.Unmarshal(raw, &hh)
	res := map[string]any{}
	// two histories in three compile their profile while the process is translating and compiling OTHER profiles (a server preparing the profiles of
	// several tenants): what a compiled profile means is settled by its text alone
	var stopBusy chan bool
	var busyDone sync.WaitGroup
	var busyIters int64
	var alsoCompiled []*regoPrepared
	if h.Id%3 != 0 {
		stopBusy = make(chan bool)
		for w := 0; w < 5; w++ {
			busyDone.Add(1)
			go func(w int) {
				defer busyDone.Done()
				defer func() { recover() }()
				for k := w; ; k++ {
					select {
					case <-stopBusy:
						return
					default:
					}
					if w == 0 && k%8 == 0 {
						pkg.CompileProfile(interferers[k%len(interferers)], false, nil)
					} else {
						// (what `acv generate` does: translation only, so these come round far more often than a whole compilation)
						verifhook.GenerateRego(interferers[k%len(interferers)], nil)
					}
					atomic.AddInt64(&busyIters, 1)
				}
			}(w)
		}
		// wait until the others are really at it (on a loaded machine they may not have been scheduled yet)
		for t := 0; t < 3000 && atomic.LoadInt64(&busyIters) < 15; t++ {
			time.Sleep(time.Millisecond)
		}
	}
	compiled, err := compileQuiet(h.Profile)
	if stopBusy != nil {
		// the translation of the profile is a short part of its compilation: compile again (each result is used below for one
		// document more) while the others did not get to run meanwhile
		for try := 0; try < 6 && err == nil; try++ {
			before := atomic.LoadInt64(&busyIters)
			c2, err2 := compileQuiet(h.Profile)
			if err2 != nil {
				compiled, err = c2, err2
				break
			}
			alsoCompiled = append(alsoCompiled, c2)
			if atomic.LoadInt64(&busyIters)-before >= 40 && try >= 2 {
				break
			}
		}
	}
	if stopBusy != nil {
		close(stopBusy)
		waited := make(chan bool, 1)
		go func() { busyDone.Wait(); waited <- true }()
		select {
		case <-waited:
		case <-time.After(callDeadline(120)):
		}
	}
	if err == errCompileBlocked {
		res["outcome"] = "timeout"
		res["err"] = err.Error()
		return res
	}
	if err != nil {
		res["outcome"] = "compile-error"
		res["err"] = err.Error()
		return res
	}
	one := func(f func() (string, error)) (kind, text string) {
		defer func() {
			if r := recover(); r != nil {
				kind, text = "panic", fmt.Sprint(r)
			}
		}()
		rep, err := f()
		if err != nil {
			return "err", ""
		}
		return "ok", retain(rep)
	}
	var positions []map[string]any
	allSame := true
	firstSeen := map[string]string{}
	var workerCh chan events.Event
	ctxDir := ""
	if len(hh.Ctx) > 0 {
		if dir, err := os.MkdirTemp("", "acvhist"); err == nil {
			ctxDir = dir
			defer os.RemoveAll(dir)
		}
	}
	ctxState := map[string]string{}
	for k, d := range hh.Docs {
		doc := d
		if ctxDir != "" {
			if k < len(hh.Ctx) {
				for f, text := range hh.Ctx[k] {
					os.WriteFile(ctxDir+"/"+f, []byte(text), 0644)
					ctxState[f] = text
				}
			}
			doc = strings.ReplaceAll(doc, "__CTX__", ctxDir)
		}
		if len(hh.Interfere) > 0 {
			other := hh.Interfere[k%len(hh.Interfere)]
			one(func() (string, error) { return pkg.Validate(other, doc, false, nil) })
		}
		rc := defaultRC()
		if k < len(hh.RCs) && hh.RCs[k] != nil {
			rc = rcOf(caseHead{RC: hh.RCs[k]})
		}
		// one history in three hands every call an event channel through ONE variable of the caller (a worker that keeps its
		// channel in a field and makes a new channel per job): each call's channel is closed when that call returns
		var evCh *chan events.Event
		var drained chan int
		if h.Id%3 == 2 {
			workerCh = make(chan events.Event, 64)
			evCh = &workerCh
			drained = make(chan int, 1)
			go func(c chan events.Event) {
				n := 0
				for range c {
					n++
				}
				drained <- n
			}(workerCh)
		}
		k1, r1 := one(func() (string, error) {
			// (a profile compiled several times under load: each compilation serves its share of the documents)
			use := compiled
			if len(alsoCompiled) > 0 && k%(len(alsoCompiled)+1) > 0 {
				use = alsoCompiled[k%(len(alsoCompiled)+1)-1]
			}
			return pkg.ValidateCompiledWithConfiguration(use, doc, dbg(h.Profile, doc), evCh, fixedClock{}, rc)
		})
		chanClosed, nEvents := any(nil), any(nil)
		if evCh != nil {
			select {
			case n := <-drained:
				chanClosed, nEvents = true, n
			case <-time.After(2 * time.Second):
				chanClosed = false
				func() {
					defer func() { recover() }()
					close(workerCh)
				}()
			}
		}
		k2, r2 := one(func() (string, error) {
			return pkg.ValidateWithConfiguration(h.Profile, doc, dbg(h.Profile, doc), nil, fixedClock{}, rc)
		})
		same := k1 == k2 && r1 == r2
		if !same {
			allSame = false
		}
		// the same document again, later in the history, must give the same report as the first time
		repeatSame := true
		rk := fmt.Sprintf("%v\x00%s\x00%v", rc, doc, ctxState) // (fmt prints maps in key order)
		if prev, ok := firstSeen[rk]; ok {
			repeatSame = prev == k1+"\n"+r1
		} else {
			firstSeen[rk] = k1 + "\n" + r1
		}
		pos := map[string]any{"compiled": k1, "fresh": k2, "same": same, "repeatSame": repeatSame, "bytes": len(r1),
			"hash": fmt.Sprintf("%x", sha256.Sum256([]byte(r1)))}
		if evCh != nil {
			pos["chanClosed"], pos["nEvents"] = chanClosed, nEvents
			if k1 == "panic" {
				pos["panic"] = r1
			}
		}
		positions = append(positions, pos)
	}
	res["outcome"] = "ok"
	res["allSame"] = allSame
	res["positions"] = positions
	return res
}

// c03: report header under a given report configuration and clock
type c03Head struct {
	Config struct {
		IncludeDate   bool   `json:"includeDate"`
		Time          string `json:"time"`
		ReportSchema  string `json:"reportSchema"`
		LexicalSchema string `json:"lexicalSchema"`
	} `json:"config"`
	Entry *int `json:"entry"`
	Debug bool `json:"debug"`
}

type clockAt struct{ t time.Time }

func (c clockAt) ReportCreationTime() time.Time { return c.t }

func implC03(h caseHead, raw []byte) map[string]any {
	var ch c03Head
	json.Unmarshal(raw, &ch)
	t, _ := time.Parse(time.RFC3339, ch.Config.Time)
	rc := config.ReportConfiguration{IncludeReportCreationTime: ch.Config.IncludeDate, ReportSchemaIri: ch.Config.ReportSchema, LexicalSchemaIri: ch.Config.LexicalSchema}
	res := map[string]any{}
	var rep string
	var err error
	func() {
		defer func() {
			if r := recover(); r != nil {
				err = fmt.Errorf("panic: %v", r)
			}
		}()
		entry := 2
		if ch.Entry != nil {
			entry = *ch.Entry
		}
		var compiled *regoPrepared
		if entry == 1 || entry == 3 {
			if compiled, err = pkg.CompileProfile(h.Profile, ch.Debug, nil); err != nil {
				return
			}
		}
		switch entry {
		case 0:
			rep, err = pkg.Validate(h.Profile, h.Data, ch.Debug, nil)
		case 1:
			rep, err = pkg.ValidateCompiled(compiled, h.Data, ch.Debug, nil)
		case 3:
			if h.Id%2 == 1 {
				// the compiled profile has been used before, for the same document, under ANOTHER configuration (other instant, other
				// schema IRIs, the date switched the other way): a report states the configuration of its own call
				decoy := config.ReportConfiguration{IncludeReportCreationTime: !rc.IncludeReportCreationTime, ReportSchemaIri: rc.ReportSchemaIri + "-other", LexicalSchemaIri: rc.LexicalSchemaIri + "-other"}
				pkg.ValidateCompiledWithConfiguration(compiled, h.Data, ch.Debug, nil, clockAt{t.Add(-17 * time.Hour)}, decoy)
			}
			rep, err = pkg.ValidateCompiledWithConfiguration(compiled, h.Data, ch.Debug, nil, clockAt{t}, rc)
		default:
			rep, err = pkg.ValidateWithConfiguration(h.Profile, h.Data, ch.Debug, nil, clockAt{t}, rc)
		}
	}()
	before := time.Now().Add(-2 * time.Minute)
	if err == nil {
		rep = retain(rep)
	}
	if err != nil {
		res["outcome"] = "error"
		res["err"] = err.Error()
		return res
	}
	rv, rerr := ReadReport(rep)
	if rerr != nil {
		res["outcome"] = "badreport"
		res["err"] = rerr.Error()
		return res
	}
	res["outcome"] = "ok"
	res["conforms"] = rv.Conforms
	res["profileName"] = rv.ProfileName
	res["hasResult"] = rv.HasResult
	if rv.DateCreated != nil {
		res["dateCreated"] = *rv.DateCreated
		if ch.Config.Time == "NOW" {
			// wall clock: must be a well-formed time between the start of the call (minus slack) and now
			if d, perr := time.Parse(time.RFC3339, *rv.DateCreated); perr == nil && d.After(before) && !d.After(time.Now().Add(time.Minute)) {
				res["dateCreated"] = "NOW"
			} else {
				res["dateCreated"] = "not the current time: " + *rv.DateCreated
			}
		}
	} else {
		res["dateCreated"] = nil
	}
	set := map[string]bool{}
	for _, r := range rv.Results {
		set[r.Severity+"|"+r.Shape+"|"+r.Focus] = true
	}
	res["results"] = sortedKeys(set)
	res["nResults"] = len(rv.Results)
	ctx, _ := rv.Raw["@context"].(map[string]any)
	res["ctxReportSchema"] = ctx["reportSchema"]
	res["ctxLexicalSchema"] = ctx["lexicalSchema"]
	return res
}

// c16: the real path parser on one string
type c16Head struct {
	Text  string `json:"text"`
	Canon string `json:"canon"`
	Kind  string `json:"kind"`
}

func implC16(h caseHead, raw []byte) (res map[string]any) {
	var ch c16Head
	json.Unmarshal(raw, &ch)
	res = map[string]any{}
	defer func() {
		if r := recover(); r != nil {
			res["result"] = "PANIC"
			res["err"] = fmt.Sprint(r)
		}
	}()
	// the same string where a profile holds paths: as the key of a property constraint and as the argument of a comparison
	// between properties; the profile parser must accept it there exactly when it is a path
	if ch.Text != "" {
		site := func(body string) (verdict string) {
			verdict = "PANIC"
			defer func() { recover() }()
			_, err := verifhook.ParseProfile("profile: P\nprefixes:\n  ex: " + NS + "\nviolation:\n  - v\nvalidations:\n  v:\n    targetClass: ex.T\n    message: m\n    propertyConstraints:\n" + body)
			if err != nil {
				return "REJECT"
			}
			return "ACCEPT"
		}
		res["asKey"] = site("      " + yq(ch.Text) + ":\n        minCount: 1\n")
		res["asComparison"] = site("      ex.p0:\n        lessThanProperty: " + yq(ch.Text) + "\n")
		// ... and deeper in a formula: in the else part of a conditional, under a nested constraint, in an operand of `or`
		// (for every sentence and fixed string, and for one mutation in eight: the exhaustive tier has millions of mutations)
		if (ch.Kind == "mutation" || ch.Kind == "fixed-mut") && h.Id%8 != 0 {
			goto parse
		}
		deep := func(body string) (verdict string) {
			verdict = "PANIC"
			defer func() { recover() }()
			_, err := verifhook.ParseProfile("profile: P\nprefixes:\n  ex: " + NS + "\nviolation:\n  - v\nvalidations:\n  v:\n    targetClass: ex.T\n    message: m\n" + body)
			if err != nil {
				return "REJECT"
			}
			return "ACCEPT"
		}
		pc := func(ind string) string {
			return ind + "propertyConstraints:\n" + ind + "  " + yq(ch.Text) + ":\n" + ind + "    minCount: 1\n"
		}
		ok := func(ind string) string {
			return ind + "propertyConstraints:\n" + ind + "  ex.p0:\n" + ind + "    minCount: 1\n"
		}
		res["asElse"] = deep("    if:\n" + ok("      ") + "    then:\n" + ok("      ") + "    else:\n" + pc("      "))
		res["asThen"] = deep("    if:\n" + ok("      ") + "    then:\n" + pc("      "))
		res["asOrOperand"] = deep("    or:\n      -\n" + ok("        ") + "      -\n" + pc("        "))
		res["asNestedKey"] = deep("    propertyConstraints:\n      ex.p1:\n        nested:\n" + pc("          "))
	}
parse:
	if ch.Canon != "" {
		if dc, err := verifhook.ParsePath(ch.Canon); err != nil {
			res["canonResult"] = "REJECT"
		} else {
			res["canonResult"] = dc
		}
	}
	d, err := verifhook.ParsePath(ch.Text)
	if err != nil {
		res["result"] = "REJECT"
		return res
	}
	res["result"] = d
	return res
}

// c13: hostile text as profile name, validation name, message and list values
type c13Head struct {
	Name     string   `json:"name"`
	VName    string   `json:"vname"`
	Message  string   `json:"message"`
	ListVals []string `json:"listvals"`
}

func implC13(h caseHead, raw []byte) map[string]any {
	var ch c13Head
	json.Unmarshal(raw, &ch)
	res := map[string]any{}
	// unit level: the quoting function and the engine's own lexer
	quoted := map[string]string{}
	lexOk := true
	for _, s := range append([]string{ch.Name, ch.VName, ch.Message}, ch.ListVals...) {
		q := verifhook.RegoString(s)
		quoted[s] = q
		t, err := ast.ParseTerm(q)
		if err != nil {
			lexOk = false
			continue
		}
		if sv, ok := t.Value.(ast.String); !ok || string(sv) != s {
			lexOk = false
		}
	}
	res["quoted"] = quoted
	res["engineLexesBack"] = lexOk
	expr, vars := verifhook.ParseMessage(ch.Message)
	res["msgFormat"] = expr
	if vars == nil {
		vars = []string{}
	}
	res["msgVars"] = vars
	o := validate(h.Profile, h.Data, defaultRC())
	res["outcome"] = o.Kind
	if o.Kind != "ok" {
		res["err"] = o.Err
		return res
	}
	rv, err := ReadReport(o.Report)
	if err != nil {
		res["outcome"] = "badreport"
		res["err"] = err.Error()
		return res
	}
	res["profileName"] = rv.ProfileName
	var results []map[string]any
	for _, r := range rv.Results {
		results = append(results, map[string]any{"shape": r.Shape, "focus": r.Focus, "message": r.Message})
	}
	res["results"] = results
	return res
}

// report: validate and hand back the whole parsed report
func implReport(h caseHead, raw []byte) map[string]any {
	o := validate(h.Profile, h.Data, defaultRC())
	res := map[string]any{"outcome": o.Kind}
	if o.Kind != "ok" {
		res["err"] = o.Err
		return res
	}
	var doc any
	if err := json.Unmarshal([]byte(o.Report), &doc); err != nil {
		res["outcome"] = "badreport"
		res["err"] = err.Error()
		return res
	}
	res["report"] = doc
	return res
}

// c14: locations of results and traces, numbers kept as written in the report
func implC14(h caseHead, raw []byte) map[string]any {
	o := validate(h.Profile, h.Data, defaultRC())
	res := map[string]any{"outcome": o.Kind}
	if o.Kind != "ok" {
		res["err"] = o.Err
		return res
	}
	dec := json.NewDecoder(strings.NewReader(o.Report))
	dec.UseNumber()
	var doc []map[string]any
	if err := dec.Decode(&doc); err != nil {
		res["outcome"] = "badreport"
		return res
	}
	rep := doc[0]["doc:encodes"].([]any)[0].(map[string]any)
	locStr := func(l any) any {
		m, ok := l.(map[string]any)
		if !ok {
			return nil
		}
		r, _ := m["range"].(map[string]any)
		s, _ := r["start"].(map[string]any)
		e, _ := r["end"].(map[string]any)
		return map[string]any{"uri": m["uri"], "nums": []string{fmt.Sprint(s["line"]), fmt.Sprint(s["column"]), fmt.Sprint(e["line"]), fmt.Sprint(e["column"])}}
	}
	out := map[string]any{}
	rs, _ := rep["result"].([]any)
	for _, r := range rs {
		m := r.(map[string]any)
		focus, _ := m["focusNode"].(string)
		entry := map[string]any{"location": locStr(m["location"])}
		var tl, tc []any
		ts, _ := m["trace"].([]any)
		for _, t := range ts {
			tl = append(tl, locStr(t.(map[string]any)["location"]))
			tc = append(tc, t.(map[string]any)["component"])
		}
		entry["traceLocations"] = tl
		entry["traceComponents"] = tc
		// sub-results of nested constraints: (focus node, location, locations of its own trace entries)
		var subs []any
		for _, t := range ts {
			tv, _ := t.(map[string]any)["traceValue"].(map[string]any)
			srs, _ := tv["subResult"].([]any)
			for _, sr := range srs {
				sm, _ := sr.(map[string]any)
				var stl []any
				sts, _ := sm["trace"].([]any)
				for _, st := range sts {
					stl = append(stl, locStr(st.(map[string]any)["location"]))
				}
				subs = append(subs, map[string]any{"focus": sm["focusNode"], "location": locStr(sm["location"]), "traceLocations": stl})
			}
		}
		entry["subResults"] = subs
		// everything except the locations, to check that source maps change nothing else
		delete(m, "location")
		for _, t := range ts {
			delete(t.(map[string]any), "location")
		}
		out[focus] = entry
	}
	res["byFocus"] = out
	res["conforms"] = rep["conforms"]
	// the same graph without any source-map node: results must be identical apart from the locations
	var nodes []map[string]any
	json.Unmarshal([]byte(h.Data), &nodes)
	var plain []map[string]any
	for _, n := range nodes {
		if ts, ok := n["@type"].([]any); ok && len(ts) == 1 && (ts[0] == NS+"T" || ts[0] == NS+"K") {
			plain = append(plain, n)
		} else if _, isKid := n[NS+"q"]; isKid { // a linked node without a class
			plain = append(plain, n)
		}
	}
	pb, _ := json.Marshal(plain)
	o2 := validate(h.Profile, string(pb), defaultRC())
	same := false
	if o2.Kind == "ok" {
		var doc2 []map[string]any
		d2 := json.NewDecoder(strings.NewReader(o2.Report))
		d2.UseNumber()
		if d2.Decode(&doc2) == nil {
			rep2 := doc2[0]["doc:encodes"].([]any)[0].(map[string]any)
			dropLocations(rep["result"]) // also inside nested sub-results
			a, _ := json.Marshal(rep["result"])
			b, _ := json.Marshal(rep2["result"])
			same = string(a) == string(b) && rep["conforms"] == rep2["conforms"]
			if strings.Contains(string(b), "\"location\"") {
				same = false
			}
		}
	}
	res["sameWithoutMaps"] = same
	return res
}

// c08: is the profile rejected at compile time because of a denied built-in?
func implC08(h caseHead, raw []byte) (res map[string]any) {
	res = map[string]any{}
	defer func() {
		if r := recover(); r != nil {
			res["outcome"] = "panic"
			res["err"] = fmt.Sprint(r)
		}
	}()
	var dh struct {
		Debug bool   `json:"debug"`
		Via   string `json:"via"`
	}
	json.Unmarshal(raw, &dh)
	submit := func() (err error) {
		switch dh.Via {
		case "validate":
			_, err = pkg.Validate(h.Profile, h.Data, dh.Debug, nil)
		case "validate-cfg":
			_, err = pkg.ValidateWithConfiguration(h.Profile, h.Data, dh.Debug, nil, fixedClock{}, rcOf(h))
		default:
			var c *regoPrepared
			c, err = pkg.CompileProfile(h.Profile, dh.Debug, nil)
			if err == nil && c == nil {
				err = fmt.Errorf("nil compiled profile without an error")
			}
		}
		return err
	}
	err := submit()
	if err != nil {
		// the verdict on a profile does not wear off: the same text submitted again is rejected again
		if err2 := submit(); err2 == nil {
			res["outcome"] = "accepted"
			res["unsafeRejected"] = false
			res["acceptedOnResubmission"] = true
			res["err"] = firstLine(err.Error())
			return res
		}
	}
	if err == nil {
		res["outcome"] = "accepted"
		res["unsafeRejected"] = false
		return res
	}
	msg := err.Error()
	res["outcome"] = "rejected"
	res["unsafeRejected"] = strings.Contains(msg, "unsafe built-in function calls")
	res["err"] = firstLine(msg)
	if len(msg) > 300 {
		msg = msg[:300]
	}
	res["errFull"] = msg
	return res
}

// c07: does the declarative profile compile?
func implC07(h caseHead, raw []byte) (res map[string]any) {
	res = map[string]any{}
	defer func() {
		if r := recover(); r != nil {
			res["outcome"] = "panic"
			res["err"] = fmt.Sprint(r)
		}
	}()
	done := make(chan error, 1)
	go func() {
		defer func() {
			if r := recover(); r != nil {
				done <- fmt.Errorf("panic: %v", r)
			}
		}()
		_, err := pkg.CompileProfile(h.Profile, dbg(h.Profile, h.Data), nil)
		done <- err
	}()
	select {
	case err := <-done:
		if err != nil {
			res["outcome"] = "error"
			msg := err.Error()
			if len(msg) > 400 {
				msg = msg[:400]
			}
			res["err"] = msg
		} else {
			res["outcome"] = "ok"
		}
	case <-time.After(callDeadline(120)):
		res["outcome"] = "timeout"
	}
	return res
}

// c05: canonical index of every serialisation, and the verdicts of a few profiles on each
type c05Head struct {
	Docs []struct {
		Text string `json:"text"`
	} `json:"docs"`
	Profiles []string `json:"profiles"`
}

func canonValue(v any) string {
	switch x := v.(type) {
	case string:
		return "s:" + x
	case json.Number:
		return "n:" + x.String()
	case float64:
		return fmt.Sprintf("n:%v", x)
	case bool:
		return fmt.Sprintf("b:%v", x)
	case map[string]any:
		if id, ok := x["@id"].(string); ok && len(x) == 1 {
			return "r:" + id
		}
		b, _ := json.Marshal(x)
		return "o:" + string(b)
	default:
		b, _ := json.Marshal(x)
		return "?:" + string(b)
	}
}

func asList(v any) []any {
	if l, ok := v.([]any); ok {
		return l
	}
	return []any{v}
}

func canonIndexOf(text string) (nodes []any, outcome string) {
	defer func() {
		if r := recover(); r != nil {
			nodes, outcome = nil, "panic: "+fmt.Sprint(r)
		}
	}()
	res, err := verifhook.ProcessInput(text, nil)
	if err != nil {
		return nil, "error: " + err.Error()
	}
	ids, _ := res.(map[string]any)["@ids"].(map[string]any)
	var keys []string
	for k := range ids {
		keys = append(keys, k)
	}
	sort.Strings(keys)
	for _, k := range keys {
		n := ids[k].(map[string]any)
		var types []string
		props := map[string][]string{}
		for pk, pv := range n {
			switch pk {
			case "@id":
			case "@type":
				for _, t := range asList(pv) {
					types = append(types, fmt.Sprint(t))
				}
			default:
				vs := []string{}
				for _, v := range asList(pv) {
					vs = append(vs, canonValue(v))
				}
				sort.Strings(vs)
				props[pk] = vs
			}
		}
		sort.Strings(types)
		if types == nil {
			types = []string{}
		}
		nodes = append(nodes, map[string]any{"id": k, "types": types, "props": props})
	}
	if nodes == nil {
		nodes = []any{}
	}
	return nodes, "ok"
}

func implC05(h caseHead, raw []byte) map[string]any {
	var ch c05Head
	json.Unmarshal(raw, &ch)
	res := map[string]any{}
	var docs []any
	for _, d := range ch.Docs {
		nodes, outcome := canonIndexOf(d.Text)
		entry := map[string]any{"outcome": outcome, "index": nodes}
		var verdicts []any
		for _, p := range ch.Profiles {
			o := validate(p, d.Text, defaultRC())
			if o.Kind != "ok" {
				verdicts = append(verdicts, o.Kind)
				continue
			}
			rv, err := ReadReport(o.Report)
			if err != nil {
				verdicts = append(verdicts, "badreport")
				continue
			}
			set := map[string]bool{}
			for _, r := range rv.Results {
				set[r.Severity+"|"+r.Shape+"|"+r.Focus+"|"+r.Message] = true
			}
			verdicts = append(verdicts, map[string]any{"conforms": rv.Conforms, "results": sortedKeys(set)})
		}
		entry["verdicts"] = verdicts
		docs = append(docs, entry)
	}
	res["outcome"] = "ok"
	res["docs"] = docs
	return res
}

func dropLocations(v any) {
	switch x := v.(type) {
	case map[string]any:
		delete(x, "location")
		for _, c := range x {
			dropLocations(c)
		}
	case []any:
		for _, c := range x {
			dropLocations(c)
		}
	}
}

// c15: the same profile in several spellings on the same data
type c15Head struct {
	ProfileB   string `json:"profileB"`
	ProfileC   string `json:"profileC"`
	ProfilePre string `json:"profilePre"`
}

func implC15(h caseHead, raw []byte) map[string]any {
	var ch c15Head
	json.Unmarshal(raw, &ch)
	res := map[string]any{}
	one := func(p string) map[string]any {
		o := validate(p, h.Data, defaultRC())
		r := map[string]any{"outcome": o.Kind}
		if o.Kind != "ok" {
			r["err"] = o.Err
			return r
		}
		rv, err := ReadReport(o.Report)
		if err != nil {
			r["outcome"] = "badreport"
			return r
		}
		set := map[string]bool{}
		for _, x := range rv.Results {
			set[x.Severity+"|"+x.Shape+"|"+x.Focus+"|"+x.Message] = true
		}
		r["results"] = sortedKeys(set)
		r["pairs"] = rv.Pairs()
		r["conforms"] = rv.Conforms
		return r
	}
	if ch.ProfilePre != "" {
		one(ch.ProfilePre) // a neighbour of the first spelling with another meaning; its answer is not looked at
	}
	res["a"] = one(h.Profile)
	res["b"] = one(ch.ProfileB)
	res["c"] = one(ch.ProfileC)
	res["outcome"] = "ok"
	return res
}

// parse: structural dump of the real profile parser's result
func implParse(h caseHead, raw []byte) (res map[string]any) {
	res = map[string]any{}
	defer func() {
		if r := recover(); r != nil {
			res["outcome"] = "panic"
			res["err"] = fmt.Sprint(r)
		}
	}()
	d, err := verifhook.DumpProfile(h.Profile)
	if err != nil {
		res["outcome"] = "error"
		res["err"] = err.Error()
		return res
	}
	var parsed any
	json.Unmarshal([]byte(d), &parsed)
	res["outcome"] = "ok"
	res["dump"] = parsed
	return res
}
