package main

import (
	"encoding/json"
	"fmt"
	"io"
)

// C02 case: one path, one graph; observed through `in:[<unmatchable>]` (one result trace per value),
// `maxCount: 0` (actual = number of distinct values) and `nested` (fetch = true: reached nodes).
type C02Case struct {
	Op      string `json:"op"`
	Id      int    `json:"id"`
	Path    Path   `json:"path"`
	Graph   Graph  `json:"graph"`
	Focus   string `json:"focus"`
	Fetch   bool   `json:"fetch"`
	Profile string `json:"profile"`
	Data    string `json:"data"`
	Text    string `json:"pathText"`
	// further prefixes the observing profile declares (alias -> namespace)
	Prefixes map[string]string `json:"prefixes,omitempty"`
}

func genC02(g *G, n int, out io.Writer) {
	enc := json.NewEncoder(out)
	for i := 0; i < n; i++ {
		nNodes := 2 + g.n(6)
		customSteps = i%3 == 2
		gr := g.graphA(nNodes, 0.6, customSteps)
		// the focus node is the single instance of class F
		f := g.n(nNodes)
		gr[f].Types = append(gr[f].Types, NS+"F")
		p := g.path(1 + g.n(3))
		if i%4 == 1 {
			moveToCore(gr, &p, g.pick(propPool))
			if g.coin(0.5) {
				moveToCore(gr, &p, g.pick(propPool))
			}
		}
		prefixes := map[string]string{}
		if i%4 == 3 {
			// a predicate in a namespace of another shape, under an alias the profile declares (for `apiExt` only when the
			// case has no annotation steps, which use the built-in meaning of that alias)
			k := g.n(len(altNamespaces))
			if altNamespaces[k].alias == "apiExt" && customSteps {
				k = 0
			}
			a, ns := moveToNs(gr, &p, g.pick(propPool), k)
			prefixes[a] = ns
		}
		if i%5 == 4 {
			// anonymous nodes: some nodes other than the focus node have a blank-node label instead of an IRI (labels in document
			// order, as the JSON-LD processor would hand them out); a path passes through them, and ends at them, like through any other node
			n := 0
			for k := range gr {
				if k != f && g.coin(0.5) {
					renameNode(gr, gr[k].Id, fmt.Sprintf("_:b%d", n))
					n++
				}
			}
		}
		fetch := g.coin(0.3)
		c := C02Case{Op: "c02", Id: i, Path: p, Graph: gr, Focus: gr[f].Id, Fetch: fetch, Text: p.Render(), Prefixes: prefixes}
		fillC02(&c)
		if i%6 == 2 && i%5 != 4 {
			// the same graph in a document that describes some nodes by two node objects with one @id, under a lone "@graph": the edges
			// a path follows are those of the GRAPH, however the document spreads a node's statements
			c.Data = gr.RenderSplit(g)
		}
		enc.Encode(c)
	}
	customSteps = false
}

// fillC02 renders the observing profile and the data of a c02 case
func fillC02(c *C02Case) {
	p := c.Path
	c.Text = p.Render()
	var prof ProfileSpec
	prof.Name = fmt.Sprintf("c02_%d", c.Id)
	prof.Prefixes = c.Prefixes
	if c.Fetch {
		// nested: inner constraint that always fails -> every reached node is a failed node
		prof.Atoms = []Atom{{Kind: "minCount", Path: PP("zz", false), Arg: i64p(1)}}
		prof.Paths = []Path{p}
		prof.Validations = []Validation{{Name: "reach", Class: NS + "F", Rule: Rule{Nested: &Rule{Atom: ip(0)}, PathIx: ip(0)}}}
	} else {
		prof.Atoms = []Atom{
			{Kind: "in", Path: p, Vals: []string{"zzz_none"}},
			{Kind: "maxCount", Path: p, Arg: i64p(0)},
			{Kind: "uniqueValues", Path: p, UArg: bp(true)},
			{Kind: "exactCount", Path: p, Arg: i64p(0)},
			{Kind: "minCount", Path: p, Arg: i64p(1000)},
		}
		prof.Validations = []Validation{
			{Name: "values", Class: NS + "F", Rule: Rule{Atom: ip(0)}},
			{Name: "count", Class: NS + "F", Rule: Rule{Atom: ip(1)}},
			{Name: "unique", Class: NS + "F", Rule: Rule{Atom: ip(2)}},
			{Name: "exact", Class: NS + "F", Rule: Rule{Atom: ip(3)}},
			{Name: "min", Class: NS + "F", Rule: Rule{Atom: ip(4)}},
		}
	}
	c.Profile = prof.Render()
	c.Data = c.Graph.RenderFlat()
}

func bp(b bool) *bool { return &b }

// renameNode gives a node another id, in its description and in every link to it
func renameNode(gr Graph, from, to string) {
	for k := range gr {
		if gr[k].Id == from {
			gr[k].Id = to
		}
		for pi := range gr[k].Props {
			for vi := range gr[k].Props[pi].Vals {
				if r := gr[k].Props[pi].Vals[vi].R; r != nil && *r == from {
					t := to
					gr[k].Props[pi].Vals[vi].R = &t
				}
			}
		}
	}
}
