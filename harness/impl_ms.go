package main

// impl op `ms`: the events of the case go through the REAL milestones.GenerateMilestonesFromEvents.

import (
	"encoding/json"
	"fmt"
	"math"
	"time"

	"github.com/aml-org/amf-custom-validator/pkg/events"
	"github.com/aml-org/amf-custom-validator/pkg/milestones"
)

// the fixed instant event times are relative to
var msEpoch = time.Date(2020, 1, 1, 0, 0, 0, 0, time.UTC)

func implMs(h caseHead, raw []byte) map[string]any {
	var c struct {
		Events [][2]int64 `json:"events"`
		Cap    *int       `json:"cap"`
	}
	if err := json.Unmarshal(raw, &c); err != nil {
		return map[string]any{"outcome": "badcase", "err": err.Error()}
	}
	mcap := len(c.Events) + 1
	if c.Cap != nil && *c.Cap >= 0 {
		mcap = *c.Cap
	}
	ech := make(chan events.Event, len(c.Events)+1)
	mch := make(chan milestones.Milestone, mcap)
	for _, ev := range c.Events {
		ech <- events.Event{EventType: events.EventType(ev[0]), Time: msEpoch.Add(time.Duration(ev[1]))}
	}
	close(ech) // what every entry point does when it returns (C11)
	collected := make(chan []milestones.Milestone, 1)
	go func() {
		var ms []milestones.Milestone
		for m := range mch {
			ms = append(ms, m)
		}
		collected <- ms
	}()
	returned := make(chan any, 1)
	go func() {
		defer func() { returned <- recover() }()
		milestones.GenerateMilestonesFromEvents(&ech, &mch)
	}()
	res := map[string]any{"outcome": "ok"}
	closes := 0
	var pan any
	select {
	case pan = <-returned:
	case <-time.After(callDeadline(60)):
		return map[string]any{"outcome": "timeout", "err": "GenerateMilestonesFromEvents did not return although the event channel was closed"}
	}
	if pan != nil {
		res["outcome"], res["err"] = "panic", fmt.Sprint(pan)
	}
	var ms []milestones.Milestone
	select {
	case ms = <-collected:
		closes = 1
		if pan != nil && fmt.Sprint(pan) == "close of closed channel" {
			closes = 2
		}
	case <-time.After(300 * time.Millisecond):
		// the generator returned and the milestone channel is still open
		close(mch)
		ms = <-collected
	}
	if closes == 1 {
		// a second close panics if and only if the channel really is closed
		func() {
			defer func() {
				if recover() == nil {
					closes = -1
				}
			}()
			close(mch)
		}()
	}
	out := make([][]any, 0, len(ms))
	for _, m := range ms {
		var start, dur any
		if !m.Start.IsZero() {
			start = int64(m.Start.Sub(msEpoch))
		}
		if d := int64(m.Duration); d != math.MaxInt64 && d != math.MinInt64 { // saturated: computed from the zero time
			dur = d
		}
		out = append(out, []any{string(m.Operation), start, dur})
	}
	res["milestones"] = out
	res["closes"] = closes
	return res
}
