package main

import (
	"encoding/json"
	"fmt"
	"io"
	"os"
	"strings"

	"github.com/piprate/json-gold/ld"
)

// "pipe" cases: an entry point, inputs built to make one stage fail, and the outcome of every
// external step of the skeleton this is expected to produce (the oracle the Lean model runs on).
//
// external steps: 0 parser.Parse, 1 generator.Generate, 2 rego.PrepareForEval, 3 json.Decoder.Decode,
// 4 jsonld.Flatten, 5 Index, 6 rego.Eval, 7 BuildReport
type PipeCase struct {
	Op       string   `json:"op"`
	Id       int      `json:"id"`
	Entry    int      `json:"entry"`
	Oracle   []string `json:"oracle"`
	Scenario string   `json:"scenario"`
	// the consumer of the event channel: channel capacity (-1 = the harness default, generous buffer) and an optional
	// stall of StallMs milliseconds after it has received StallAt events - a legal, merely slow reader
	Cap     int    `json:"cap"`
	StallAt int    `json:"stallAt"`
	StallMs int    `json:"stallMs"`
	Profile string `json:"profile"`
	Data    string `json:"data"`
}

const okProfile = `#%Validation Profile 1.0
profile: Pipe
prefixes:
  ex: http://ex.org/v#
violation:
  - v
validations:
  v:
    targetClass: ex.T
    message: m
    propertyConstraints:
      ex.p0:
        minCount: 1
`

const okData = `[{"@id":"http://ex.org/n/1","@type":["http://ex.org/v#T"]},{"@id":"http://ex.org/n/2","@type":["http://ex.org/v#T"],"http://ex.org/v#p0":[{"@value":"x"}]}]`

type profVariant struct {
	name string
	text string
	fail int    // failing external step (-1 none)
	how  string // err | panic
}

var profVariants = []profVariant{
	{"ok", okProfile, -1, ""},
	{"yaml-syntax", "profile: [unclosed\n  validations: {", 0, "err"},
	{"yaml-empty", "", 0, "err"},
	{"yaml-comment-only", "# nothing here\n", 0, "err"},
	{"not-a-map", "- a\n- b\n", 0, "err"},
	{"no-validations", "profile: X\nviolation: [v]\n", 0, "err"},
	{"no-target-class", "profile: X\nviolation: [v]\nvalidations:\n  v:\n    message: m\n    propertyConstraints:\n      ex.p0:\n        minCount: 1\n", 0, "err"},
	{"bad-path", strings.Replace(okProfile, "ex.p0:", "\"ex.p0 / / ex.p1\":", 1), 0, "err"},
	{"and-not-list", "profile: X\nviolation: [v]\nvalidations:\n  v:\n    targetClass: ex.T\n    and: 5\n", 0, "err"},
	{"unknown-prefix", strings.Replace(okProfile, "targetClass: ex.T", "targetClass: nope.T", 1), 1, "panic"},
	{"unknown-path-prefix", strings.Replace(okProfile, "ex.p0:", "zz.p0:", 1), 1, "panic"},
	{"empty-and", "profile: X\nprefixes:\n  ex: http://ex.org/v#\nviolation: [v]\nvalidations:\n  v:\n    targetClass: ex.T\n    and: []\n", 2, "err"},
	{"rego-syntax", "profile: X\nprefixes:\n  ex: http://ex.org/v#\nviolation: [v]\nvalidations:\n  v:\n    targetClass: ex.T\n    rego: \"this is ((( not rego\"\n", 2, "err"},
	// the evaluation succeeds but its result has not the shape the report builder expects
	{"report-shape", "profile: p\nrego_extensions: 'violation = 5'\nvalidations: {}", 7, "err"},
	{"rego-unsafe-builtin", "profile: X\nprefixes:\n  ex: http://ex.org/v#\nviolation: [v]\nvalidations:\n  v:\n    targetClass: ex.T\n    rego: \"$result = http.send({})\"\n", 2, "err"},
}

// more results of a shape the report builder cannot use: a member of one level's collection that is not a result node (the
// embedded Rego adds it to the rule the report is read from), and a level that is no collection at all
func init() {
	for _, level := range []string{"violation", "warning", "info"} {
		for k, member := range []string{`"not a result node"`, `7`, `[1, 2]`, `true`} {
			text := "profile: shape\nprefixes:\n  ex: http://ex.org/v#\nrego_extensions: |\n  " + level + "[" + member + "] {\n    true\n  }\n" + level + ":\n  - v\nvalidations:\n  v:\n    targetClass: ex.T\n    message: m\n    propertyConstraints:\n      ex.p0:\n        minCount: 1\n"
			profVariants = append(profVariants, profVariant{fmt.Sprintf("report-shape-%s-member-%d", level, k), text, 7, "err"})
		}
		for k, value := range []string{`"x"`, `5`, `{"a": 1}`} {
			text := "profile: shape\nrego_extensions: '" + level + " = " + value + "'\nvalidations: {}"
			profVariants = append(profVariants, profVariant{fmt.Sprintf("report-shape-%s-value-%d", level, k), text, 7, "err"})
		}
	}
}

// a profile whose evaluation fails at run time: a function with two different outputs for one input
const evalConflictProfile = `profile: Conflict
prefixes:
  ex: http://ex.org/v#
rego_extensions: |
  two_valued(x) = 1 { true }
  two_valued(x) = 2 { true }
violation:
  - v
validations:
  v:
    targetClass: ex.T
    rego: |
      y = two_valued($node)
      $result = (y == 3)
`

type dataVariant struct {
	name string
	text string
	fail int
	how  string
}

func dataVariants(repo string) []dataVariant {
	vs := []dataVariant{
		{"ok", okData, -1, ""},
		{"empty-graph", "[]", -1, ""},
		{"empty-object", "{}", -1, ""},
		// a complete JSON value followed by something else: the stream decoder reads the first value and stops
		{"trailing-bracket", okData + " ]", -1, ""},
		{"two-documents", okData + "\n" + okData, -1, ""},
		{"trailing-nul", okData + "\x00\x00", -1, ""},
		{"trailing-text", "[] and then some text", -1, ""},
		{"trailing-brace-after-object", `{"@id":"http://a","@type":"http://ex.org/v#T"}}`, -1, ""},
		// a lexical range with a leading zero on a reported node: the policy yields the number 03, which the report encoder refuses
		{"report-encode-leading-zero", `[{"@id":"http://ex.org/n/1","@type":["http://ex.org/v#T"]},{"@id":"http://ex.org/l/1","http://a.ml/vocabularies/document-source-maps#element":"http://ex.org/n/1","http://a.ml/vocabularies/document-source-maps#value":"[(03,0)-(18,8)]"},{"@id":"http://ex.org/sm","@type":["http://a.ml/vocabularies/document-source-maps#SourceMap"],"http://a.ml/vocabularies/document-source-maps#lexical":[{"@id":"http://ex.org/l/1"}]},{"@id":"http://ex.org/info","@type":["http://a.ml/vocabularies/document#BaseUnitSourceInformation"],"http://a.ml/vocabularies/document#rootLocation":"file:///root.raml"}]`, 7, "err"},
		{"empty", "", 3, "err"},
		{"whitespace", "  \n\t ", 3, "err"},
		{"truncated", okData[:len(okData)/2], 3, "err"},
		{"truncated-1", okData[:len(okData)-1], 3, "err"},
		{"yaml", "#%RAML 1.0\ntitle: api\n", 3, "err"},
		{"utf16-bom", "\xff\xfe[\x00]\x00", 3, "err"},
		{"utf8-bom", "\xef\xbb\xbf[]", 3, "err"},
		{"single-quotes", "{'@id': 'http://a'}", 3, "err"},
		{"nan", "[NaN]", 3, "err"},
		{"trailing-comma", "[1,]", 3, "err"},
		{"type-number", `{"@id":"http://a","@type":5}`, 4, "err"},
		{"id-array", `{"@id":["http://a"],"http://p":1}`, 4, "err"},
		{"context-number", `{"@context":7,"@id":"http://a"}`, 4, "err"},
		{"list-of-lists", `{"@id":"http://a","http://p":{"@list":[{"@list":[1]}]}}`, -2, ""}, // json-ld 1.1 allows it; classified at run time
		{"value-and-id", `{"@id":"http://a","http://p":{"@value":1,"@id":"http://b"}}`, 4, "err"},
		{"bad-language", `{"@id":"http://a","http://p":{"@value":"x","@language":5}}`, 4, "err"},
		{"reverse-scalar", `{"@id":"http://a","@reverse":{"http://p":"x"}}`, 4, "err"},
		{"keyword-redefinition", `{"@context":{"@id":"http://x"},"@id":"http://a"}`, 4, "err"},
		// IRI references the processor cannot parse while resolving them against a base: json-gold panics, NormalizeOrError recovers
		{"bad-iri-id", `{"@context":{"@base":"amf://id#"},"@id":"%xsd:boolean","@type":"http://ex.org/v#T"}`, 4, "panic"},
		{"bad-iri-link", `{"@context":{"@base":"amf://id#"},"@id":"http://a","@type":"http://ex.org/v#T","http://ex.org/v#p0":{"@id":":foo"}}`, 4, "panic"},
	}
	// the RAML source of a fixture passed as data, and a fixture truncated at many offsets
	if b, err := os.ReadFile(repo + "/test/data/integration/profile1/negative.data.raml"); err == nil {
		vs = append(vs, dataVariant{"fixture-raml", string(b), 3, "err"})
	}
	if b, err := os.ReadFile(repo + "/test/data/integration/profile1/negative.data.jsonld"); err == nil {
		s := string(b)
		for k := 1; k <= 24; k++ {
			off := len(s) * k / 25
			vs = append(vs, dataVariant{fmt.Sprintf("fixture-cut-%d", off), s[:off], 3, "err"})
		}
	}
	return vs
}

// jsonldCandidates: JSON documents that JSON-LD processing may or may not reject; each is classified by
// running the processor itself (the property quantifies over "all JSON documents JSON-LD rejects")
var jsonldCandidates = []string{
	`{"@id":"http://a","@type":"http://c/T","@direction":"ltr"}`,
	`{"@graph":{"@index":"x","@value":5}}`,
	`{"@id":"http://a","@index":5}`,
	`{"@id":"http://a","http://p":{"@value":"x","@direction":"up"}}`,
	`{"@id":"http://a","http://p":{"@value":{"a":1}}}`,
	`{"@id":"http://a","http://p":{"@value":"x","@type":"_:b"}}`,
	`{"@id":"http://a","http://p":{"@value":"x","@type":5}}`,
	`{"@id":"http://a","http://p":{"@value":"x","@language":"en","@type":"http://t"}}`,
	`{"@id":"http://a","http://p":{"@list":[1],"@id":"http://b"}}`,
	`{"@id":"http://a","http://p":{"@set":[1],"@index":5}}`,
	`{"@id":"http://a","@reverse":"x"}`,
	`{"@id":"http://a","@reverse":{"http://p":{"@value":1}}}`,
	`{"@id":"http://a","@reverse":{"@id":"http://b"}}`,
	`{"@id":"http://a","@graph":5}`,
	`{"@id":"http://a","@included":5}`,
	`{"@id":"http://a","@nest":5}`,
	`{"@id":"http://a","@type":{"@id":"http://t"}}`,
	`{"@id":"http://a","@type":[["http://t"]]}`,
	`{"@id":"http://a","@type":null}`,
	`{"@id":{"@id":"http://a"},"http://p":1}`,
	`{"@id":null,"http://p":1}`,
	`{"@id":true,"http://p":1}`,
	`{"@context":"http://unreachable.invalid/ctx","@id":"http://a"}`,
	`{"@context":[5],"@id":"http://a"}`,
	`{"@context":{"t":{"@id":5}},"@id":"http://a"}`,
	`{"@context":{"t":{"@type":5,"@id":"http://t"}},"@id":"http://a"}`,
	`{"@context":{"t":{"@container":"@nope","@id":"http://t"}},"@id":"http://a"}`,
	`{"@context":{"t":{"@reverse":"http://r","@id":"http://t"}},"@id":"http://a"}`,
	`{"@context":{"@vocab":5},"@id":"http://a"}`,
	`{"@context":{"@base":5},"@id":"http://a"}`,
	`{"@context":{"@language":5},"@id":"http://a"}`,
	`{"@context":{"a":"b","b":"a"},"@id":"http://a","a":1}`,
	`{"@context":{"@version":2},"@id":"http://a"}`,
	`{"@context":{"":"http://e/"},"@id":"http://a"}`,
	`[{"@id":"http://a","http://p":[[1,[2]]]}]`,
	`{"@id":"http://a","http://p":{"@id":"http://b","@value":1}}`,
	`{"@value":5}`,
	`[{"@list":[1]}]`,
	`{"@graph":[{"@graph":[{"@id":"http://a","http://p":1}]}]}`,
}

// top-level scalars (a string that reads like an address is taken for the address of a remote document), and lists of many units of
// which one is rejected - at the start, in the middle, at the end
func init() {
	jsonldCandidates = append(jsonldCandidates, `"urn:uuid:6f1c"`, `"mailto:someone@example.org"`, `"./dir/api.jsonld#/web:api"`, `"acv-demo:no/such"`, `"no colon here"`, `"http://localhost:1/nothing"`, `5`, `true`, `null`, `1.5e3`)
	unit := func(k int) string {
		return fmt.Sprintf(`{"@id":"http://ex.org/u/%d","@type":["http://ex.org/v#T"],"http://ex.org/v#p0":[{"@value":"x%d"}]}`, k, k)
	}
	for _, n := range []int{15, 16, 17, 40, 300} {
		for _, bad := range []string{`{"@id":5}`, `{"@id":"http://ex.org/u/bad","@type":5}`, `{"@context":5,"@id":"http://ex.org/u/bad"}`} {
			for _, at := range []int{0, n / 2, n - 1} {
				var us []string
				for k := 0; k < n; k++ {
					if k == at {
						us = append(us, bad)
					} else {
						us = append(us, unit(k))
					}
				}
				jsonldCandidates = append(jsonldCandidates, "["+strings.Join(us, ",")+"]")
			}
		}
		var us []string
		for k := 0; k < n; k++ {
			us = append(us, unit(k))
		}
		jsonldCandidates = append(jsonldCandidates, "["+strings.Join(us, ",")+"]", `{"@graph":[`+strings.Join(us, ",")+`]}`)
	}
}

func classifyJsonLd(text string) (rejected bool, ok bool) {
	var doc any
	dec := json.NewDecoder(strings.NewReader(text))
	dec.UseNumber()
	if err := dec.Decode(&doc); err != nil {
		return false, false
	}
	defer func() {
		if r := recover(); r != nil {
			rejected, ok = true, true
		}
	}()
	proc := ld.NewJsonLdProcessor()
	_, err := proc.Flatten(doc, map[string]any{}, ld.NewJsonLdOptions(""))
	return err != nil, true
}

func oracleFor(fail int, how string) []string {
	o := []string{"ok", "ok", "ok", "ok", "ok", "ok", "ok", "ok"}
	if fail >= 0 {
		o[fail] = how
	}
	return o
}

// entry ids: 0 pkg.Validate, 1 pkg.ValidateCompiled, 2 pkg.ValidateWithConfiguration,
// 3 pkg.ValidateCompiledWithConfiguration, 4 pkg.CompileProfile
func genPipe(g *G, repo string, out io.Writer, full bool) {
	enc := json.NewEncoder(out)
	id := 0
	emit := func(entry int, scen string, prof, data string, oracle []string) {
		enc.Encode(PipeCase{Op: "pipe", Id: id, Entry: entry, Oracle: oracle, Scenario: scen, Cap: -1, StallAt: -1, Profile: prof, Data: data})
		id++
	}
	emitSlow := func(entry int, scen string, prof, data string, oracle []string, cap, at, ms int) {
		enc.Encode(PipeCase{Op: "pipe", Id: id, Entry: entry, Oracle: oracle, Scenario: scen, Cap: cap, StallAt: at, StallMs: ms, Profile: prof, Data: data})
		id++
	}
	dvs := dataVariants(repo)
	for _, pv := range profVariants {
		for _, entry := range []int{0, 2, 4} {
			emit(entry, "profile:"+pv.name, pv.text, okData, oracleFor(pv.fail, pv.how))
		}
	}
	for _, dv := range dvs {
		if dv.fail == -2 {
			continue
		}
		for _, entry := range []int{0, 1, 2, 3} {
			if !full && entry >= 2 && strings.HasPrefix(dv.name, "fixture-cut") {
				continue
			}
			emit(entry, "data:"+dv.name, okProfile, dv.text, oracleFor(dv.fail, dv.how))
		}
	}
	for k, cand := range jsonldCandidates {
		rejected, ok := classifyJsonLd(cand)
		if !ok {
			continue
		}
		for _, entry := range []int{0, 1, 2, 3} {
			if !full && entry >= 2 {
				continue
			}
			if rejected {
				emit(entry, fmt.Sprintf("data:jsonld-rejects-%d", k), okProfile, cand, oracleFor(4, "err"))
			} else {
				emit(entry, fmt.Sprintf("data:jsonld-accepts-%d", k), okProfile, cand, oracleFor(-1, ""))
			}
		}
	}
	for _, entry := range []int{0, 1, 2, 3} {
		emit(entry, "eval:conflict", evalConflictProfile, okData, oracleFor(6, "err"))
	}
	// sizes: a document of several hundred KiB (valid; cut short; valid with a profile that fails late) - the stages of a call
	// neither overlap nor change their order with the size of its inputs
	{
		var nodes []string
		for k := 0; len(nodes)*200 < 700*1024; k++ {
			nodes = append(nodes, fmt.Sprintf(`{"@id":"http://ex.org/big/%d","@type":["http://ex.org/v#U"],"http://ex.org/v#q":[{"@value":"%s"}]}`, k, strings.Repeat("padding ", 18)))
		}
		big := "[" + okData[1:len(okData)-1] + "," + strings.Join(nodes, ",") + "]"
		for _, entry := range []int{0, 1, 2, 3} {
			emit(entry, "size:big-data", okProfile, big, oracleFor(-1, ""))
		}
		emit(0, "size:big-data-cut", okProfile, big[:len(big)-7], oracleFor(3, "err"))
		emit(2, "size:big-data-cut", okProfile, big[:len(big)-7], oracleFor(3, "err"))
		for _, pv := range profVariants {
			if pv.name == "rego-syntax" || pv.name == "unknown-prefix" || pv.name == "yaml-syntax" {
				emit(0, "size:big-data+profile:"+pv.name, pv.text, big, oracleFor(pv.fail, pv.how))
				emit(2, "size:big-data+profile:"+pv.name, pv.text, big, oracleFor(pv.fail, pv.how))
			}
		}
	}
	// slow consumers on small channels: whatever the reader's pace, the same events arrive in the same order
	stalls := []int{0, 1, 3, 5, 8, 11, 12, 13}
	if full {
		stalls = []int{0, 1, 2, 3, 4, 5, 6, 7, 8, 9, 10, 11, 12, 13}
	}
	for k, at := range stalls {
		entry := []int{0, 2, 1, 3}[k%4]
		cap := []int{0, 1, 0, 2}[k%4]
		ms := []int{700, 1200}[k%2]
		emitSlow(entry, fmt.Sprintf("slow-consumer:stall-after-%d-cap-%d", at, cap), okProfile, okData, oracleFor(-1, ""), cap, at, ms)
	}
	emitSlow(4, "slow-consumer:compile", okProfile, okData, oracleFor(-1, ""), 0, 1, 700)
	emitSlow(0, "slow-consumer:failing-data", okProfile, "{ not json", oracleFor(3, "err"), 0, 2, 700)
}
