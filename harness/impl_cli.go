package main

import (
	"bytes"
	"encoding/json"
	"fmt"
	"os"
	"os/exec"
	"path/filepath"
	"regexp"
	"strings"
	"time"

	"github.com/aml-org/amf-custom-validator/pkg"
	"github.com/aml-org/amf-custom-validator/pkg/verifhook"
)

type cliHead struct {
	Sub    string `json:"sub"`
	Prior  string `json:"prior"`
	ToFile bool   `json:"toFile"`
	Fault  string `json:"fault"`
	Names  string `json:"names"`
}

var dateRe = regexp.MustCompile(`"dateCreated": "([^"]*)"`)

// maskDate replaces the value of dateCreated (the CLI uses the wall clock) after checking it is an RFC 3339
// time within the window of this run.
func maskDate(s string, from, to time.Time) (string, bool) {
	ok := true
	out := dateRe.ReplaceAllStringFunc(s, func(m string) string {
		v := dateRe.FindStringSubmatch(m)[1]
		t, err := time.Parse(time.RFC3339, v)
		if err != nil || t.Before(from.Add(-2*time.Second)) || t.After(to.Add(2*time.Second)) {
			ok = false
		}
		return `"dateCreated": "MASKED"`
	})
	return out, ok
}

func libOutput(sub, profile, data string) (out string, failed bool) {
	defer func() {
		if r := recover(); r != nil {
			out, failed = fmt.Sprint(r), true
		}
	}()
	switch sub {
	case "validate":
		rep, err := pkg.Validate(profile, data, false, nil)
		if err != nil {
			return err.Error(), true
		}
		return rep, false
	case "generate":
		verifhook.GenReset() // the command runs in a fresh process
		_, code, err := verifhook.GenerateRego(profile, nil)
		if err != nil {
			return err.Error(), true
		}
		return code, false
	case "normalize":
		res, err := verifhook.ProcessInput(data, nil)
		if err != nil {
			return err.Error(), true
		}
		return verifhook.Encode(res), false
	case "compile":
		_, err := pkg.CompileProfile(profile, false, nil)
		if err != nil {
			return err.Error(), true
		}
		return "Compile Success!", false
	}
	return "bad sub", true
}

func implCli(h caseHead, raw []byte) map[string]any {
	var ch cliHead
	json.Unmarshal(raw, &ch)
	res := map[string]any{}
	bin := os.Getenv("ACV_BIN")
	if bin == "" {
		res["outcome"] = "no-binary"
		return res
	}
	dir, err := os.MkdirTemp("", "acvcli")
	if err != nil {
		res["outcome"] = "tmp-failed"
		return res
	}
	defer os.RemoveAll(dir)
	pf, df, of := filepath.Join(dir, "p.yaml"), filepath.Join(dir, "d.jsonld"), filepath.Join(dir, "out.json")
	switch ch.Names {
	case "dollar":
		pf, df, of = filepath.Join(dir, "p$ACV_X.yaml"), filepath.Join(dir, "d${ACV_X}.jsonld"), filepath.Join(dir, "out$ACV_X.json")
	case "spaces":
		pf, df, of = filepath.Join(dir, "p file \u00e9.yaml"), filepath.Join(dir, "d  file.jsonld"), filepath.Join(dir, "o ut.json")
	}
	os.WriteFile(pf, []byte(h.Profile), 0644)
	os.WriteFile(df, []byte(h.Data), 0644)
	t0 := time.Now()
	lib, failed := libOutput(ch.Sub, h.Profile, h.Data)
	switch ch.Fault {
	case "no-profile-file":
		os.Remove(pf)
		lib, failed = "", true
	case "no-data-file":
		os.Remove(df)
		lib, failed = "", true
	case "out-dir-missing":
		of = filepath.Join(dir, "no-such-dir", "out.json")
		lib, failed = "", true
	case "no-args":
		lib, failed = "", true
	}
	var prior *string
	if ch.ToFile {
		var p string
		switch ch.Prior {
		case "absent":
		case "empty":
			p = ""
			prior = &p
		case "shorter":
			p = "XXXXXXXXXX"
			prior = &p
		case "longer":
			p = strings.Repeat("Y", len(lib)+517)
			prior = &p
		case "big":
			p = strings.Repeat("Z", 1<<20)
			prior = &p
		case "same-size":
			// as long as the report this run will write (the date has a fixed width), other content
			p = strings.Repeat("x", len(lib))
			prior = &p
		case "symlink-dangling":
			os.Symlink(filepath.Join(dir, "target.json"), of)
		case "symlink-existing":
			p = strings.Repeat("L", len(lib)+123)
			os.WriteFile(filepath.Join(dir, "target.json"), []byte(p), 0644)
			os.Symlink(filepath.Join(dir, "target.json"), of)
			prior = &p
		case "is-data-file":
			of = df
			p = h.Data
			prior = &p
		}
		if prior != nil && ch.Prior != "symlink-existing" && ch.Prior != "is-data-file" {
			os.WriteFile(of, []byte(*prior), 0644)
		}
	}
	var args []string
	switch ch.Sub {
	case "validate":
		args = []string{"validate", pf, df}
		if ch.ToFile {
			args = append(args, of)
		}
	case "generate":
		args = []string{"generate", pf}
	case "normalize":
		args = []string{"normalize", df}
	case "compile":
		args = []string{"compile", pf}
	}
	if ch.Fault == "no-args" {
		args = args[:1]
	}
	if strings.HasPrefix(ch.Fault, "unknown-subcommand:") {
		args[0] = strings.TrimPrefix(ch.Fault, "unknown-subcommand:")
		lib, failed = "", true
	}
	cmd := exec.Command(bin, args...)
	cmd.Env = append(os.Environ(), "ACV_X=expanded")
	var so, se bytes.Buffer
	cmd.Stdout, cmd.Stderr = &so, &se
	done := make(chan error, 1)
	cmd.Start()
	go func() { done <- cmd.Wait() }()
	exit := 0
	select {
	case err := <-done:
		if err != nil {
			if ee, ok := err.(*exec.ExitError); ok {
				exit = ee.ExitCode()
			} else {
				exit = -1
			}
		}
	case <-time.After(callDeadline(120)):
		cmd.Process.Kill()
		exit = -9
	}
	t1 := time.Now()
	res["outcome"] = "ok"
	res["exit"] = exit
	res["libFailed"] = failed
	dateOk := true
	m := func(s string) string {
		x, ok := maskDate(s, t0, t1)
		if !ok {
			dateOk = false
		}
		return x
	}
	if !failed {
		res["lib"] = m(lib)
	}
	res["stdout"] = m(so.String())
	if prior != nil {
		res["prior"] = *prior
	} else {
		res["prior"] = nil
	}
	if b, err := os.ReadFile(of); err == nil {
		res["file"] = m(string(b))
	} else {
		res["file"] = nil
	}
	res["dateOk"] = dateOk
	res["stderrHead"] = firstLine(se.String())
	return res
}

func firstLine(s string) string {
	if i := strings.Index(s, "\n"); i >= 0 {
		s = s[:i]
	}
	if len(s) > 200 {
		s = s[:200]
	}
	return s
}
