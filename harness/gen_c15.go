package main

import (
	"encoding/json"
	"fmt"
	"io"
	"sort"
	"strings"
)

// generic YAML tree with ordered mappings, emitted in block or flow style with varying quoting
type ynode struct {
	kind  string // map | seq | str | int | bool
	keys  []string
	vals  []*ynode
	items []*ynode
	s     string
}

func ystr(s string) *ynode        { return &ynode{kind: "str", s: s} }
func yint(i int64) *ynode         { return &ynode{kind: "int", s: fmt.Sprint(i)} }
func ymap() *ynode                { return &ynode{kind: "map"} }
func yseq(items ...*ynode) *ynode { return &ynode{kind: "seq", items: items} }
func (m *ynode) put(k string, v *ynode) *ynode {
	m.keys = append(m.keys, k)
	m.vals = append(m.vals, v)
	return m
}

type ystyle struct {
	g       *G
	indent  int
	flowP   float64 // probability of flow style for small collections
	comment bool
}

var plainSafe = func(s string) bool {
	if s == "" || strings.ContainsAny(s, ":#{}[],&*!|>'\"%@`\n\t") || strings.HasPrefix(s, "-") || strings.HasPrefix(s, " ") || strings.HasSuffix(s, " ") {
		return false
	}
	switch strings.ToLower(s) {
	case "true", "false", "null", "yes", "no", "on", "off", "~":
		return false
	}
	if plainTyped(s) {
		return false
	}
	if _, err := fmt.Sscanf(s, "%f", new(float64)); err == nil {
		return false
	}
	return true
}

func (st *ystyle) scalar(n *ynode) string {
	if n.kind != "str" {
		return n.s
	}
	switch {
	case plainSafe(n.s) && st.g.coin(0.5):
		return n.s
	case !strings.ContainsAny(n.s, "'\n\\") && st.g.coin(0.5):
		return "'" + n.s + "'"
	default:
		q := yq(n.s)
		if st.flowP > 0 && strings.Contains(n.s, "\t") && !strings.Contains(n.s, "\\") && st.g.coin(0.5) {
			// inside double quotes a tab may be written as the escape or as the character itself
			q = strings.ReplaceAll(q, "\\t", "\t")
		}
		return q
	}
}

// a mapping key is looked up by its text: a key that would resolve to a number, a boolean, null or a date when written plain is
// still that key (the VALUES of level lists are different: there the plain spelling is another YAML value, so they stay quoted)
// blockScalar writes a one-line text as a literal (|) or folded (>) block scalar when that spells the same string: with the
// default chomping the value ends in one line break, with `-` it ends without
func (st *ystyle) blockScalar(w *strings.Builder, pad, k, s string, ind int) bool {
	if st.flowP == 0 || !st.g.coin(0.2) {
		return false // (the canonical spelling keeps to quoted and plain scalars)
	}
	body, chomp := s, "-"
	if strings.HasSuffix(s, "\n") {
		body, chomp = strings.TrimSuffix(s, "\n"), ""
	}
	if body == "" || strings.ContainsAny(body, "\n\r\t") || strings.HasPrefix(body, " ") || strings.HasSuffix(body, " ") || strings.ContainsAny(body, "\ufeff\u2028\u2029\u0085") {
		return false
	}
	for _, r := range body {
		if r < 0x20 || r == 0x7f {
			return false
		}
	}
	w.WriteString(pad + st.key(k) + ": " + st.g.pick([]string{"|", ">"}) + chomp + "\n" + pad + strings.Repeat(" ", st.indent) + body + "\n")
	return true
}

func (st *ystyle) key(k string) string {
	if !plainSafe(k) && plainTyped(k) && st.g.coin(0.5) {
		return k
	}
	return st.scalar(ystr(k))
}

var typedNames = []string{"1001", "007", "true", "null", "2024-01-15", "1e3", "0x1F", "3.14", "-5", "No"}

func plainTyped(s string) bool {
	for _, t := range typedNames {
		if s == t {
			return true
		}
	}
	return false
}

func small(n *ynode) bool {
	switch n.kind {
	case "map":
		for _, v := range n.vals {
			if v.kind == "map" || v.kind == "seq" {
				if !small(v) || len(n.vals) > 2 {
					return false
				}
			}
		}
		return len(n.keys) <= 3
	case "seq":
		for _, v := range n.items {
			if v.kind == "map" || v.kind == "seq" {
				return false
			}
		}
		return true
	}
	return true
}

func (st *ystyle) flow(n *ynode) string {
	switch n.kind {
	case "map":
		var parts []string
		for i, k := range n.keys {
			parts = append(parts, yq(k)+": "+st.flow(n.vals[i]))
		}
		return "{" + strings.Join(parts, ", ") + "}"
	case "seq":
		var parts []string
		for _, v := range n.items {
			parts = append(parts, st.flow(v))
		}
		return "[" + strings.Join(parts, ", ") + "]"
	case "str":
		return yq(n.s)
	}
	return n.s
}

func (st *ystyle) block(w *strings.Builder, n *ynode, ind int) {
	pad := strings.Repeat(" ", ind)
	switch n.kind {
	case "map":
		for i, k := range n.keys {
			v := n.vals[i]
			if st.comment && st.g.coin(0.15) {
				w.WriteString(pad + "# " + st.g.pick([]string{"note", "and: [x]", "key: value", "- item"}) + "\n")
			}
			if st.comment && st.g.coin(0.1) {
				w.WriteString("\n")
			}
			switch {
			case v.kind == "str" && st.blockScalar(w, pad, k, v.s, ind):
			case v.kind != "map" && v.kind != "seq":
				w.WriteString(pad + st.key(k) + ": " + st.scalar(v))
				if st.comment && st.g.coin(0.1) {
					w.WriteString("   # trailing")
				}
				w.WriteString("\n")
			case (v.kind == "map" && len(v.keys) == 0) || (v.kind == "seq" && len(v.items) == 0) || (small(v) && st.g.coin(st.flowP)):
				w.WriteString(pad + st.key(k) + ": " + st.flow(v) + "\n")
			default:
				w.WriteString(pad + st.key(k) + ":\n")
				st.block(w, v, ind+st.indent)
			}
		}
	case "seq":
		for _, v := range n.items {
			if v.kind == "map" && len(v.keys) > 0 {
				var sub strings.Builder
				st.block(&sub, v, ind+2)
				s := sub.String()
				w.WriteString(pad + "- " + strings.TrimPrefix(s, strings.Repeat(" ", ind+2)))
			} else if v.kind == "map" || v.kind == "seq" {
				w.WriteString(pad + "- " + st.flow(v) + "\n")
			} else {
				w.WriteString(pad + "- " + st.scalar(v) + "\n")
			}
		}
	}
}

// ----- profile -> YAML tree, with the order of every mapping / list decided by `perm` -----

type treeCtx struct {
	atoms    []Atom
	paths    []Path
	g        *G
	shuffle  bool
	prefix   func() string // prefix to use for a compact IRI
	extAlias string        // declared alias of the API-extension namespace ("" = only the built-in apiExt)
	xsdAlias string        // declared alias of the XML Schema namespace ("" = only xsd)
	// atoms (cardinality on one plain property) that are written as an embedded Rego constraint with the same meaning
	regoAtoms map[int]bool
	depth     int // number of nested constraints around the rule being written
}

// regoFor: the embedded-Rego spelling of a cardinality atom on a single forward property, or "" when the atom has none
func regoFor(a Atom, ix int, depth ...int) string {
	d := 0
	if len(depth) > 0 {
		d = depth[0]
	}
	if a.Path.P == nil || a.Path.Inv || *a.Path.P == "@type" || strings.HasPrefix(*a.Path.P, ApiExtNS) || a.Arg == nil {
		return ""
	}
	op := map[string]string{"minCount": ">=", "maxCount": "<=", "exactCount": "=="}[a.Kind]
	if op == "" {
		return ""
	}
	// fragments placed in one failure branch share one rule body: every fragment uses a variable name of its own
	// ... and a fragment inside a nested constraint must not reuse a name of the rule around it (the comprehension would capture it)
	v := fmt.Sprintf("vals_%d", ix)
	if d > 0 {
		v = fmt.Sprintf("vals_%d_in%d", ix, d)
	}
	return fmt.Sprintf(`%s = nodes_array with data.nodes as object.get($node, "%s", []); $result = count(%s) %s %d`, v, *a.Path.P, v, op, *a.Arg)
}

func (c *treeCtx) pathText(p Path) string {
	s := p.Render()
	// rename the prefix consistently / mix prefixes bound to the same namespace
	var b strings.Builder
	for {
		i := strings.Index(s, "ex.")
		if i < 0 {
			b.WriteString(s)
			break
		}
		b.WriteString(s[:i] + c.prefix() + ".")
		s = s[i+3:]
	}
	out := b.String()
	if c.extAlias != "" {
		// the built-in prefix of the API-extension namespace, or a prefix the profile declares for it
		var b2 strings.Builder
		for {
			i := strings.Index(out, "apiExt.")
			if i < 0 {
				b2.WriteString(out)
				break
			}
			pfx := "apiExt"
			if c.g.coin(0.6) {
				pfx = c.extAlias
			}
			b2.WriteString(out[:i] + pfx + ".")
			out = out[i+7:]
		}
		out = b2.String()
	}
	return out
}

func (c *treeCtx) order(n int) []int {
	idx := make([]int, n)
	for i := range idx {
		idx[i] = i
	}
	if c.shuffle {
		c.g.r.Shuffle(n, func(a, b int) { idx[a], idx[b] = idx[b], idx[a] })
	}
	return idx
}

func (c *treeCtx) atomConstraint(m *ynode, a Atom) {
	switch a.Kind {
	case "in", "containsAll", "containsSome":
		var it []*ynode
		for _, v := range a.Vals {
			it = append(it, ystr(v))
		}
		m.put(a.Kind, yseq(it...))
	case "lessThanProperty", "lessThanOrEqualsToProperty", "equalsToProperty", "disjointWithProperty", "moreThanProperty", "moreThanOrEqualsToProperty":
		m.put(a.Kind, ystr(c.pathText(*a.Other)))
	case "datatype":
		dt := compactDt(a.Dt)
		if c.xsdAlias != "" && strings.HasPrefix(dt, "xsd.") && c.g.coin(0.6) {
			dt = c.xsdAlias + "." + strings.TrimPrefix(dt, "xsd.")
		}
		m.put(a.Kind, ystr(dt))
	case "pattern":
		m.put(a.Kind, ystr(a.patternText()))
	case "uniqueValues":
		m.put(a.Kind, &ynode{kind: "bool", s: fmt.Sprint(a.UArg == nil || *a.UArg)})
	default:
		m.put(a.Kind, yint(*a.Arg))
	}
}

// pcEntry: one constraint to be placed under propertyConstraints[path]
type pcEntry struct {
	path string
	key  string // constraint key (for duplicate detection)
	fill func(m *ynode)
}

func (c *treeCtx) asPc(r Rule) (pcEntry, bool) {
	switch {
	case r.Atom != nil:
		a := c.atoms[*r.Atom]
		if c.regoAtoms[*r.Atom] && regoFor(a, *r.Atom) != "" {
			return pcEntry{}, false
		}
		return pcEntry{path: c.pathText(a.Path), key: a.Kind, fill: func(m *ynode) { c.atomConstraint(m, a) }}, true
	case r.Nested != nil:
		p := c.pathText(c.paths[*r.PathIx])
		c.depth++ // (embedded Rego inside the nested constraint lives in a comprehension that sees the variables of the rule around it)
		inner := c.rule(*r.Nested)
		c.depth--
		if r.Q == nil {
			return pcEntry{path: p, key: "nested", fill: func(m *ynode) { m.put("nested", inner) }}, true
		}
		key := map[string]string{"ge": "atLeast", "le": "atMost", "eq": "exactly"}[r.Q.Op]
		q := *r.Q
		return pcEntry{path: p, key: key, fill: func(m *ynode) {
			qm := ymap()
			for _, i := range c.order(2) {
				if i == 0 {
					qm.put("count", yint(int64(q.K)))
				} else {
					qm.put("validation", inner)
				}
			}
			m.put(key, qm)
		}}, true
	}
	return pcEntry{}, false
}

func (c *treeCtx) pcMap(entries []pcEntry) *ynode {
	// group by path; the caller guarantees (path,key) pairs are distinct
	byPath := map[string][]pcEntry{}
	var paths []string
	for _, e := range entries {
		if _, ok := byPath[e.path]; !ok {
			paths = append(paths, e.path)
		}
		byPath[e.path] = append(byPath[e.path], e)
	}
	pc := ymap()
	for _, pi := range c.order(len(paths)) {
		p := paths[pi]
		cm := ymap()
		es := byPath[p]
		for _, ei := range c.order(len(es)) {
			es[ei].fill(cm)
		}
		pc.put(p, cm)
	}
	return ymap().put("propertyConstraints", pc)
}

func (c *treeCtx) rule(r Rule) *ynode {
	if r.Atom != nil && c.regoAtoms[*r.Atom] {
		if code := regoFor(c.atoms[*r.Atom], *r.Atom, c.depth); code != "" {
			return ymap().put("rego", ystr(code))
		}
	}
	if e, ok := c.asPc(r); ok {
		return c.pcMap([]pcEntry{e})
	}
	switch {
	case r.And != nil:
		// conjunctions of atoms/nested with pairwise distinct (path, key) can be ONE propertyConstraints map
		var es []pcEntry
		seen := map[string]bool{}
		mergeable := true
		for _, x := range r.And {
			e, ok := c.asPc(x)
			if !ok || seen[e.path+"\x00"+e.key] {
				mergeable = false
				break
			}
			seen[e.path+"\x00"+e.key] = true
			es = append(es, e)
		}
		if mergeable && len(es) > 0 {
			return c.pcMap(es)
		}
		var items []*ynode
		for _, i := range c.order(len(r.And)) {
			items = append(items, c.rule(r.And[i]))
		}
		return ymap().put("and", yseq(items...))
	case r.Or != nil:
		var items []*ynode
		for _, i := range c.order(len(r.Or)) {
			items = append(items, c.rule(r.Or[i]))
		}
		return ymap().put("or", yseq(items...))
	case r.Not != nil:
		return ymap().put("not", c.rule(*r.Not))
	case r.If != nil:
		m := ymap()
		parts := []struct {
			k string
			r *Rule
		}{{"if", r.If}, {"then", r.Then}, {"else", r.Else}}
		for _, i := range c.order(3) {
			if parts[i].r != nil {
				m.put(parts[i].k, c.rule(*parts[i].r))
			}
		}
		return m
	}
	panic("rule")
}

// profileTree builds the YAML tree; shuffle=false gives the canonical spelling
func profileTree(g *G, p ProfileSpec, shuffle bool, prefixes []string) *ynode {
	c := &treeCtx{atoms: p.Atoms, paths: p.Paths, g: g, shuffle: shuffle, regoAtoms: p.RegoAtoms}
	c.prefix = func() string { return prefixes[g.n(len(prefixes))] }
	if !shuffle {
		c.prefix = func() string { return prefixes[0] }
	}
	if shuffle && len(prefixes) > 1 {
		c.extAlias = "my-ext_1"
		c.xsdAlias = "xs-2"
	}
	root := ymap()
	levels := map[string][]string{}
	for _, v := range p.Validations {
		l := v.Level
		if l == "" {
			l = "violation"
		}
		levels[l] = append(levels[l], v.Name)
	}
	for l, names := range p.Dangling {
		levels[l] = append(levels[l], names...) // canonical spelling: after the defined names; shuffled spellings: anywhere
	}
	top := []string{"profile", "prefixes", "violation", "warning", "info", "validations"}
	for _, ti := range c.order(len(top)) {
		switch top[ti] {
		case "profile":
			root.put("profile", ystr(p.Name))
		case "prefixes":
			pm := ymap()
			all := append([]string{}, prefixes...)
			sort.Strings(all)
			for _, i := range c.order(len(all)) {
				pm.put(all[i], ystr(NS))
			}
			pm.put("xsd", ystr("http://www.w3.org/2001/XMLSchema#"))
			if c.extAlias != "" {
				pm.put(c.extAlias, ystr(ApiExtNS))
			}
			if c.xsdAlias != "" {
				pm.put(c.xsdAlias, ystr("http://www.w3.org/2001/XMLSchema#"))
			}
			root.put("prefixes", pm)
		case "validations":
			vm := ymap()
			for _, i := range c.order(len(p.Validations)) {
				v := p.Validations[i]
				body := c.rule(v.Rule)
				if len(body.keys) == 1 && body.keys[0] == "propertyConstraints" && (len(v.Name)+int(v.Name[len(v.Name)-1]))%3 == 0 {
					// a second expression keyword next to propertyConstraints: the parser reads propertyConstraints and ignores the
					// other one wherever it stands among the keys
					decoy := ymap().put("propertyConstraints", ymap().put("ex.p0", ymap().put("minCount", yint(7))))
					switch int(v.Name[len(v.Name)-1]) % 2 {
					case 1:
						body.put("not", decoy)
					default:
						body.put("or", yseq(decoy))
					}
				}
				m := ymap()
				extra := []string{"targetClass", "message"}
				pos := c.order(len(extra) + len(body.keys))
				for _, k := range pos {
					switch {
					case k == 0:
						m.put("targetClass", ystr(c.prefix()+"."+strings.TrimPrefix(v.Class, NS)))
					case k == 1:
						msg := "failed " + v.Name
						if int(v.Name[len(v.Name)-1])%4 == 1 {
							msg += "\n" // a text that ends in a line break (what a block scalar with default chomping spells)
						}
						if int(v.Name[len(v.Name)-1])%4 == 2 {
							msg = "failed\t" + v.Name + "\t." // tabs inside a text
						}
						m.put("message", ystr(msg))
					default:
						m.put(body.keys[k-2], body.vals[k-2])
					}
				}
				vm.put(v.Name, m)
			}
			root.put("validations", vm)
		default:
			if names, ok := levels[top[ti]]; ok {
				var it []*ynode
				for _, i := range c.order(len(names)) {
					it = append(it, ystr(names[i]))
				}
				root.put(top[ti], yseq(it...))
			}
		}
	}
	return root
}

type C15Case struct {
	C01Case
	ProfileB string `json:"profileB"`
	ProfileC string `json:"profileC"`
	// a DIFFERENT profile the process validates with first: the text of the first spelling but for what follows a " #" inside one
	// quoted scalar (so it lists another value): what a profile means is not settled by a neighbour the process saw before
	ProfilePre string `json:"profilePre,omitempty"`
}

func genC15(g *G, n int, out io.Writer) {
	enc := json.NewEncoder(out)
	maxBranches = 48
	for i := 0; i < n; i++ {
		customSteps = i%3 == 1
		var base C01Case
		if i%10 == 3 {
			// directed: cardinality of an annotation (custom domain property) step, alone and before another step, on a graph
			// that carries such annotations - the verdicts depend on the step being recognised under whatever alias names it
			customSteps = true
			base = C01Case{Op: "c15", Id: i, Stream: "graphcount"}
			w := PCustom("wadus", false)
			base.Atoms = []Atom{{Kind: "minCount", Path: w, Arg: i64p(1)}, {Kind: "maxCount", Path: Path{Seq: []Path{w, PP("p0", false)}}, Arg: i64p(0)},
				{Kind: "minCount", Path: PCustom("maturity", false), Arg: i64p(1)}}
			base.Validations = []Validation{{Name: "v0", Class: NS + "T", Rule: Rule{Atom: ip(0)}}, {Name: "v1", Class: NS + "T", Rule: Rule{Or: []Rule{{Atom: ip(1)}, {Not: &Rule{Atom: ip(2)}}}}},
				{Name: "v2", Class: NS + "U", Rule: Rule{Not: &Rule{Atom: ip(0)}}}}
			for tries := 0; tries < 20; tries++ {
				base.Graph = g.graphA(4+g.n(4), 0.5, true)
				if strings.Contains(base.Graph.RenderFlat(), "\"wadus\"") {
					break
				}
			}
		} else if i%10 == 7 {
			// directed: datatype constraints over every datatype the generator knows (the four the policy checks by kind, the sized
			// integer types, others), on a graph whose values are numbers, strings and booleans - what a datatype IRI means does not
			// depend on the alias it is written with
			customSteps = false
			base = C01Case{Op: "c15", Id: i, Stream: "graph"}
			dts := []string{"long", "int", "short", "byte", "integer", "float", "double", "string", "boolean", "anyURI"}
			off := g.n(len(dts))
			for k := 0; k < 3; k++ {
				base.Atoms = append(base.Atoms, Atom{Kind: "datatype", Path: PP(fmt.Sprintf("p%d", k), false), Dt: "http://www.w3.org/2001/XMLSchema#" + dts[(off+k)%len(dts)]})
			}
			base.Validations = []Validation{{Name: "v0", Class: NS + "T", Rule: Rule{Atom: ip(0)}}, {Name: "v1", Class: NS + "T", Rule: Rule{Or: []Rule{{Atom: ip(1)}, {Not: &Rule{Atom: ip(2)}}}}},
				{Name: "v2", Class: NS + "U", Rule: Rule{Not: &Rule{Atom: ip(0)}}}, {Name: "v3", Class: NS + "U", Rule: Rule{And: []Rule{{Atom: ip(1)}, {Atom: ip(2)}}}}}
			base.Graph = g.graph(4+g.n(4), 0.3)
		} else if i%2 == 0 {
			// propositional skeleton over classical atoms, whole truth table (deeper and wider formulas)
			base = genC01TruthTable(g, i)
			customSteps = false
		} else {
			base = genC01Graph(g, i, g.coin(0.6))
			if customSteps {
				base.Graph = g.graphA(3+g.n(5), 0.5, true)
			}
		}
		base.Op = "c15"
		base.Stream = "graphcount"
		if base.Atoms[0].Kind != "minCount" && base.Atoms[0].Kind != "maxCount" && base.Atoms[0].Kind != "exactCount" {
			base.Stream = "graph"
		}
		for k := range base.Atoms {
			if base.Atoms[k].Kind != "minCount" && base.Atoms[k].Kind != "maxCount" && base.Atoms[k].Kind != "exactCount" {
				base.Stream = "graph"
			}
		}
		for k := range base.Validations {
			base.Validations[k].Level = []string{"violation", "warning", "info"}[g.n(3)]
		}
		if i%4 == 1 {
			// validation names that YAML would read as a number, a boolean, null or a date when a KEY is written without quotes
			off := g.n(len(typedNames))
			for k := range base.Validations {
				if k < len(typedNames) {
					base.Validations[k].Name = typedNames[(off+k)%len(typedNames)]
				}
			}
		}
		hashTwin := i%9 == 4 && i%10 != 3 && i%10 != 7
		if hashTwin {
			// a listed value with " #" in it (a ticket label, a channel name): inside a quoted scalar that is text, not a comment
			hp := PP("hp", false)
			base.Atoms = append(base.Atoms, Atom{Kind: "in", Path: hp, Vals: []string{"k #1", "plain"}})
			base.Validations = append(base.Validations, Validation{Name: "hash", Class: NS + "T", Rule: Rule{Atom: ip(len(base.Atoms) - 1)}})
			for k := range base.Graph {
				setProp(&base.Graph[k], *hp.P, []Val{VS([]string{"k #1", "k #2", "plain"}[k%3])})
			}
		}
		spec := ProfileSpec{Name: fmt.Sprintf("c15_%d", i), Atoms: base.Atoms, Paths: base.Paths, Validations: base.Validations}
		if g.coin(0.3) {
			// some cardinality atoms are spelled as embedded Rego (the same spelling in all three texts): operands of and/or
			// that differ only in their code
			spec.RegoAtoms = map[int]bool{}
			for k := range spec.Atoms {
				if g.coin(0.6) {
					spec.RegoAtoms[k] = true
				}
			}
		}
		if g.coin(0.4) {
			// a name that is listed under a level but not defined (say, a removed validation): ignored wherever it stands in the list
			spec.Dangling = map[string][]string{}
			for _, l := range []string{"violation", "warning", "info"} {
				if g.coin(0.6) {
					spec.Dangling[l] = []string{g.pick([]string{"ghost", "removed-rule", "v99"})}
				}
			}
		}
		var w strings.Builder
		canon := &ystyle{g: g, indent: 2, flowP: 0}
		canon.block(&w, profileTree(g, spec, false, []string{"ex"}), 0)
		base.Profile = w.String()
		var wb strings.Builder
		(&ystyle{g: g, indent: 2 + 2*g.n(2), flowP: 0.5, comment: true}).block(&wb, profileTree(g, spec, true, []string{"ex"}), 0)
		var wc strings.Builder
		(&ystyle{g: g, indent: 2, flowP: 0.3, comment: g.coin(0.5)}).block(&wc, profileTree(g, spec, true, []string{"q_1", "Other-ns", "ex"}), 0)
		base.Data = base.Graph.RenderFlat()
		cc := C15Case{C01Case: base, ProfileB: "#%Validation Profile 1.0\n" + wb.String(), ProfileC: wc.String()}
		if hashTwin && strings.Contains(base.Profile, "k #1") {
			cc.ProfilePre = strings.ReplaceAll(base.Profile, "k #1", "k #2")
		}
		enc.Encode(cc)
	}
	customSteps = false
}
