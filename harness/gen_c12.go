package main

import (
	"encoding/json"
	"fmt"
	"io"
)

// c12 cases: profiles rich in nested / quantified constraints (deep sub-results, several traces per result)
// with validations on all three levels; the whole report is handed to the Lean well-formedness checker.
func genC12(g *G, n int, out io.Writer) {
	enc := json.NewEncoder(out)
	maxBranches = 16
	for i := 0; i < n; i++ {
		c := genC01Graph(g, i, g.coin(0.4))
		c.Op = "report"
		c.Stream = "c12"
		// force nesting: wrap some validations in nested-of-nested
		for k := range c.Validations {
			if g.coin(0.6) && len(c.Paths) > 0 {
				inner := c.Validations[k].Rule
				depth := 1 + g.n(3)
				for d := 0; d < depth; d++ {
					in2 := inner
					inner = Rule{Nested: &in2, PathIx: ip(g.n(len(c.Paths)))}
					if g.coin(0.3) {
						inner.Q = &Quant{Op: g.pick([]string{"ge", "le"}), K: g.n(3)}
					}
					if g.coin(0.4) {
						extra := Rule{Atom: ip(g.n(len(c.Atoms)))}
						in3 := inner
						inner = Rule{And: []Rule{in3, extra}}
					}
				}
				c.Validations[k].Rule = inner
			}
			c.Validations[k].Level = []string{"violation", "warning", "info"}[g.n(3)]
		}
		// links heavy graph so that nested paths reach nodes
		c.Graph = g.graph(3+g.n(5), 0.7)
		prof := ProfileSpec{Name: fmt.Sprintf("c12_%d", i), Atoms: c.Atoms, Paths: c.Paths, Validations: c.Validations}
		c.Profile = prof.Render()
		c.Data = c.Graph.RenderFlat()
		enc.Encode(c)
	}
}
