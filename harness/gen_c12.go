package main

import (
	"strings"
	"encoding/json"
	"fmt"
	"io"
)

// c12 cases: profiles rich in nested / quantified constraints (deep sub-results, several traces per result)
// with validations on all three levels; the whole report is handed to the Lean well-formedness checker.
// large reports: many results in one level (positional ids must stay unique at any size)
func genC12Large(g *G, size int, id int) C01Case {
	c := C01Case{Op: "report", Id: id, Stream: "c12-large"}
	c.Atoms = []Atom{{Kind: "minCount", Path: PP("zz", false), Arg: i64p(1)}, {Kind: "minCount", Path: PP("yy", false), Arg: i64p(1)}}
	c.Paths = []Path{PP("p0", false)}
	c.Validations = []Validation{
		{Name: "big", Class: NS + "T", Rule: Rule{Atom: ip(0)}, Level: []string{"violation", "warning", "info"}[g.n(3)]},
		{Name: "bignested", Class: NS + "T", Rule: Rule{Nested: &Rule{Atom: ip(1)}, PathIx: ip(0)}, Level: []string{"violation", "warning", "info"}[g.n(3)]},
	}
	for k := 0; k < size; k++ {
		child := nodeId(100000 + k)
		c.Graph = append(c.Graph, Node{Id: nodeId(k), Types: []string{NS + "T"}, Props: []Prop{{NS + "p0", []Val{VR(child)}}}})
		c.Graph = append(c.Graph, Node{Id: child, Types: []string{NS + "C"}, Props: []Prop{{NS + "q", []Val{VI(int64(k))}}}})
	}
	prof := ProfileSpec{Name: fmt.Sprintf("c12_large_%d", size), Atoms: c.Atoms, Paths: c.Paths, Validations: c.Validations}
	c.Profile = prof.Render()
	c.Data = c.Graph.RenderFlat()
	return c
}

func genC12(g *G, n int, out io.Writer) {
	enc := json.NewEncoder(out)
	maxBranches = 16
	sizes := []int{9, 10, 11, 33, 65, 101, 130, 257}
	if n > 500 {
		sizes = append(sizes, 513, 1025, 2049)
	}
	for k, sz := range sizes {
		enc.Encode(genC12Large(g, sz, 100000+k))
	}
	for i := 0; i < n; i++ {
		c := genC01Graph(g, i, g.coin(0.4))
		c.Op = "report"
		c.Stream = "c12"
		// force nesting: wrap some validations in nested-of-nested
		for k := range c.Validations {
			if g.coin(0.6) && len(c.Paths) > 0 {
				inner := c.Validations[k].Rule
				depth := 1 + g.n(3)
				if g.coin(0.12) {
					depth = 4 + g.n(3) // deep nesting: every level adds three levels to the result tree
				}
				for d := 0; d < depth; d++ {
					in2 := inner
					inner = Rule{Nested: &in2, PathIx: ip(g.n(len(c.Paths)))}
					if g.coin(0.3) {
						inner.Q = &Quant{Op: g.pick([]string{"ge", "le"}), K: g.n(3)}
					}
					if g.coin(0.4) {
						extra := Rule{Atom: ip(g.n(len(c.Atoms)))}
						in3 := inner
						inner = Rule{And: []Rule{in3, extra}}
					}
				}
				c.Validations[k].Rule = inner
			}
			c.Validations[k].Level = []string{"violation", "warning", "info"}[g.n(3)]
			// any text is a validation name: the report must name the validation as the profile defines it.  The hostile pieces
			// rotate with the case number, so every one of them occurs in some name of every run
			c.Validations[k].Name = fmt.Sprintf("v%d", k) + hostilePieces[i%len(hostilePieces)]
			if g.coin(0.25) {
				c.Validations[k].Name += g.hostile(3)
			}
			if g.coin(0.3) {
				// the message key in its unusual legal forms: absent, null, a number, a boolean, a list - the documented default text applies
				c.Validations[k].RawMessage = g.pick([]string{"<absent>", "<null>", "~", "null", "404", "true", "[a, b]", "{a: b}", "1.5"})
			}
		}
		// links heavy graph so that nested paths reach nodes
		c.Graph = g.graph(3+g.n(5), 0.7)
		prof := ProfileSpec{Name: fmt.Sprintf("c12_%d", i), Atoms: c.Atoms, Paths: c.Paths, Validations: c.Validations}
		if i%5 == 2 {
			// a constraint over a vocabulary whose namespace has no scheme: its trace entries name that path like any other
			sl := []string{SchemelessNS, SchemelessNS2}[(i/5)%2] + g.pick([]string{"owner", "part_2", "a-b"})
			c.Atoms = append(c.Atoms, Atom{Kind: "minCount", Path: Path{P: &sl}, Arg: i64p(1)})
			k := g.n(len(c.Validations))
			old := c.Validations[k].Rule
			c.Validations[k].Rule = Rule{And: []Rule{old, {Atom: ip(len(c.Atoms) - 1)}}}
			prof.Atoms, prof.Validations = c.Atoms, c.Validations
			prof.Prefixes = map[string]string{"sl": SchemelessNS, "sl2": SchemelessNS2}
		}
		if i%6 == 4 && len(c.Validations) > 0 {
			// the level lists also name things the profile does not define: a stranger, and the name of a defined validation in
			// another capitalisation (names are compared as written). Such entries are skipped; no result may carry their name
			levels := map[string][]string{}
			for _, v := range prof.Validations {
				l := v.Level
				if l == "" {
					l = "violation"
				}
				levels[l] = append(levels[l], v.Name)
			}
			v0 := prof.Validations[g.n(len(prof.Validations))].Name
			near := strings.ToUpper(v0)
			if near == v0 {
				near = strings.ToLower(v0)
			}
			l := []string{"violation", "warning", "info"}[g.n(3)]
			levels[l] = append(levels[l], "stranger")
			if near != v0 {
				levels[l] = append([]string{near}, levels[l]...)
			}
			prof.Levels = levels
		}
		c.Profile = prof.Render()
		c.Data = c.Graph.RenderFlat()
		// source maps for some, all or none of the nodes: results, traces and sub-results then carry location nodes
		if i%4 != 0 {
			var ids []string
			for _, n := range c.Graph {
				ids = append(ids, n.Id)
			}
			c.Data = withLexical(g, c.Data, ids, []float64{0.3, 0.6, 1.0}[i%3])
		}
		enc.Encode(c)
	}
}
