package main

// Translator, part 2c: a STRICT reading of how the generated module is assembled per SEVERITY LEVEL (Acv/Gen/Levels.lean).
//
// The fixed preamble ends with three rules `report[level] = matches { vs = <name>; level := "<level>"; matches := vs }` that READ the
// names violation / warning / info. Each of these names has to be DEFINED by the module: by a rule generated from a validation
// (head `strings.ToLower(e.Level)+"[matches]"`, one rule per branch of the validation's failure DNF) or by a
// `default <name> = []` that `preamble` appends when the corresponding list of the parsed profile is empty. What is read here:
//
//	(a) ruleSet (generator.go): which profile fields are appended, in which order, each by a plain `acc = append(acc, r)`; and that
//	    Generate emits one GenerateTopLevelExpression text per element of ruleSet(profile), next to preamble(profile)
//	(b) preamble: the `if len(profile.X) == 0 { acc = append(acc, "default x = []") }` statements as (field, name) pairs
//	(c) preambleRaw: the names the report rules read and the level strings they assign; the names the preamble itself defines
//	(d) wrapTopLevelRegoResult (expression.go): the head line of a generated rule, emitted once per branch
//	(e) the parser (internal/parser/profile): which level string ends up in `Level` of the entries of which profile field
//
// Anything that does not have the documented shape is listed in `levelsUnreadable` (a theorem says the list is empty).

import (
	"fmt"
	"go/ast"
	"go/parser"
	"go/token"
	"os"
	"path/filepath"
	"regexp"
	"strconv"
	"strings"
)

type lvFacts struct {
	ruleSetFields []string    // Lean constructor names
	defaults      [][2]string // (field, name in the default text)
	reads         [][2]string // (name read by a report rule, level string it assigns)
	preambleHeads []string    // names the fixed preamble defines itself
	parserLevels  [][2]string // (field, level string the parser stores in the entries of that field)
	headFn        string
	headFormat    string
	unreadable    []string
}

var levelFields = map[string]string{"Violation": ".violation", "Warning": ".warning", "Info": ".info"}

func funcNamed(f *ast.File, name string) *ast.FuncDecl {
	for _, d := range f.Decls {
		if fd, ok := d.(*ast.FuncDecl); ok && fd.Recv == nil && fd.Body != nil && fd.Name.Name == name {
			return fd
		}
	}
	return nil
}

func paramNames(fd *ast.FuncDecl) []string {
	var out []string
	for _, p := range fd.Type.Params.List {
		for _, n := range p.Names {
			out = append(out, n.Name)
		}
	}
	return out
}

// `recv.Field` with recv a plain identifier: returns (recv, Field)
func selOf(e ast.Expr) (string, string, bool) {
	sel, ok := e.(*ast.SelectorExpr)
	if !ok {
		return "", "", false
	}
	id, ok := sel.X.(*ast.Ident)
	if !ok {
		return "", "", false
	}
	return id.Name, sel.Sel.Name, true
}

func readLevels(repo string) lvFacts {
	lf := lvFacts{headFn: ".unknown"}
	bad := func(format string, a ...any) { lf.unreadable = append(lf.unreadable, fmt.Sprintf(format, a...)) }
	fset := token.NewFileSet()
	line := func(n ast.Node) string { return strings.Join(strings.Fields(exprText(fset, n)), " ") }
	field := func(where, name string) string {
		if c, ok := levelFields[name]; ok {
			return c
		}
		bad("%s: %s is not one of the fields Violation, Warning, Info", where, name)
		return ""
	}

	// ------------------------------------------------------------------ generator.go
	gf, err := parser.ParseFile(fset, repo+"/internal/generator/generator.go", nil, 0)
	if err != nil {
		bad("generator.go: %v", err)
		return lf
	}
	// (a) ruleSet
	if fd := funcNamed(gf, "ruleSet"); fd == nil {
		bad("ruleSet not found")
	} else {
		ps := paramNames(fd)
		body := fd.Body.List
		if len(ps) != 1 || len(body) < 2 {
			bad("ruleSet: unexpected signature or body")
		} else {
			if line(body[0]) != "acc := make([]profile.Rule, 0)" {
				bad("ruleSet: first statement: %s", line(body[0]))
			}
			if line(body[len(body)-1]) != "return acc" {
				bad("ruleSet: last statement: %s", line(body[len(body)-1]))
			}
			for _, s := range body[1 : len(body)-1] {
				rs, ok := s.(*ast.RangeStmt)
				if !ok {
					bad("ruleSet: not a range loop: %s", line(s))
					continue
				}
				recv, fname, okSel := selOf(rs.X)
				val, okVal := rs.Value.(*ast.Ident)
				if !okSel || recv != ps[0] || !isNamed(rs.Key, "_") || !okVal || rs.Tok != token.DEFINE {
					bad("ruleSet: loop header: %s", strings.SplitN(line(rs), "{", 2)[0])
					continue
				}
				// nothing is filtered: the body is the plain append of the loop variable
				if len(rs.Body.List) != 1 || line(rs.Body.List[0]) != "acc = append(acc, "+val.Name+")" {
					bad("ruleSet: the loop over %s.%s is not a plain `acc = append(acc, %s)`: %s", recv, fname, val.Name, line(rs.Body))
					continue
				}
				if c := field("ruleSet", fname); c != "" {
					lf.ruleSetFields = append(lf.ruleSetFields, c)
				}
			}
		}
	}
	// Generate: acc starts with {.., preamble(profile)}, then one GenerateTopLevelExpression text per element of ruleSet(profile)
	if fd := funcNamed(gf, "Generate"); fd == nil {
		bad("Generate not found")
	} else {
		ps := paramNames(fd)
		p := ""
		if len(ps) == 1 {
			p = ps[0]
		} else {
			bad("Generate: parameters (%s)", strings.Join(ps, ", "))
		}
		foundAcc, foundLoop := false, false
		for _, s := range fd.Body.List {
			switch st := s.(type) {
			case *ast.AssignStmt:
				if len(st.Lhs) == 1 && isNamed(st.Lhs[0], "acc") && st.Tok == token.DEFINE {
					if cl, ok := st.Rhs[0].(*ast.CompositeLit); ok && line(cl.Type) == "[]string" {
						n := 0
						for _, el := range cl.Elts {
							if line(el) == "preamble("+p+")" {
								n++
							}
						}
						foundAcc = n == 1
					}
				}
			case *ast.RangeStmt:
				if line(st.X) == "ruleSet("+p+")" {
					val, okVal := st.Value.(*ast.Ident)
					if isNamed(st.Key, "_") && okVal && len(st.Body.List) == 1 &&
						line(st.Body.List[0]) == "acc = append(acc, GenerateTopLevelExpression("+val.Name+", iriExpander))" {
						foundLoop = true
					} else {
						bad("Generate: the loop over ruleSet is not `acc = append(acc, GenerateTopLevelExpression(r, iriExpander))`: %s", line(st.Body))
					}
				}
			}
		}
		if !foundAcc {
			bad("Generate: `acc := []string{..., preamble(%s)}` not found", p)
		}
		if !foundLoop {
			bad("Generate: `for _, r := range ruleSet(%s)` not found", p)
		}
	}
	// ruleSet, preamble and GenerateTopLevelExpression are used exactly once each in generator.go
	uses := map[string]int{}
	ast.Inspect(gf, func(n ast.Node) bool {
		if c, ok := n.(*ast.CallExpr); ok {
			if id, ok := c.Fun.(*ast.Ident); ok {
				uses[id.Name]++
			}
		}
		return true
	})
	for _, fn := range []string{"ruleSet", "preamble", "GenerateTopLevelExpression"} {
		if uses[fn] != 1 {
			bad("generator.go calls %s %d times", fn, uses[fn])
		}
	}
	// (b) preamble
	defaultRe := regexp.MustCompile(`^default ([A-Za-z_][A-Za-z0-9_]*) = \[\]$`)
	if fd := funcNamed(gf, "preamble"); fd == nil {
		bad("preamble not found")
	} else {
		ps := paramNames(fd)
		body := fd.Body.List
		if len(ps) != 1 || len(body) < 3 {
			bad("preamble: unexpected signature or body")
		} else {
			if line(body[0]) != "acc := make([]string, 0)" {
				bad("preamble: first statement: %s", line(body[0]))
			}
			if line(body[1]) != "acc = append(acc, preambleRaw)" {
				bad("preamble: second statement: %s", line(body[1]))
			}
			if line(body[len(body)-1]) != `return strings.Join(acc, "\n\n")` {
				bad("preamble: last statement: %s", line(body[len(body)-1]))
			}
			for _, s := range body[2 : len(body)-1] {
				is, ok := s.(*ast.IfStmt)
				if !ok || is.Init != nil || is.Else != nil {
					bad("preamble: not a plain if: %s", line(s))
					continue
				}
				// len(profile.X) == 0
				fname := ""
				if be, ok := is.Cond.(*ast.BinaryExpr); ok && be.Op == token.EQL && line(be.Y) == "0" {
					if c, ok := be.X.(*ast.CallExpr); ok && isNamed(c.Fun, "len") && len(c.Args) == 1 {
						if recv, fn, ok := selOf(c.Args[0]); ok && recv == ps[0] {
							fname = fn
						}
					}
				}
				if fname == "" {
					bad("preamble: condition is not `len(%s.X) == 0`: %s", ps[0], line(is.Cond))
					continue
				}
				name := ""
				if len(is.Body.List) == 1 {
					if as, ok := is.Body.List[0].(*ast.AssignStmt); ok && as.Tok == token.ASSIGN && len(as.Lhs) == 1 && isNamed(as.Lhs[0], "acc") {
						if c, ok := as.Rhs[0].(*ast.CallExpr); ok && isNamed(c.Fun, "append") && len(c.Args) == 2 && isNamed(c.Args[0], "acc") {
							if lit, ok := c.Args[1].(*ast.BasicLit); ok && lit.Kind == token.STRING {
								if text, err := strconv.Unquote(lit.Value); err == nil {
									if m := defaultRe.FindStringSubmatch(text); m != nil {
										name = m[1]
									}
								}
							}
						}
					}
				}
				if name == "" {
					bad("preamble: the body under `%s` is not `acc = append(acc, \"default x = []\")`: %s", line(is.Cond), line(is.Body))
					continue
				}
				if c := field("preamble", fname); c != "" {
					lf.defaults = append(lf.defaults, [2]string{c, name})
				}
			}
		}
	}
	// (c) preambleRaw
	raw, found := "", false
	for _, d := range gf.Decls {
		gd, ok := d.(*ast.GenDecl)
		if !ok || (gd.Tok != token.CONST && gd.Tok != token.VAR) {
			continue
		}
		for _, sp := range gd.Specs {
			vs := sp.(*ast.ValueSpec)
			for i, n := range vs.Names {
				if n.Name != "preambleRaw" {
					continue
				}
				if gd.Tok != token.CONST {
					bad("preambleRaw is not a constant")
				}
				if i < len(vs.Values) {
					if lit, ok := vs.Values[i].(*ast.BasicLit); ok && lit.Kind == token.STRING {
						if s, err := strconv.Unquote(lit.Value); err == nil {
							raw, found = s, true
						}
					}
				}
			}
		}
	}
	if !found {
		bad("preambleRaw is not a string literal")
	} else {
		lines := strings.Split(raw, "\n")
		identRe := regexp.MustCompile(`^[A-Za-z_][A-Za-z0-9_]*`)
		vsRe := regexp.MustCompile(`^vs = ([A-Za-z_][A-Za-z0-9_]*)$`)
		lvRe := regexp.MustCompile(`^level := "([^"\\]*)"$`)
		seenHead := map[string]bool{}
		for i := 0; i < len(lines); i++ {
			l := lines[i]
			if l == "" || l[0] == '#' || l[0] == ' ' || l[0] == '\t' || l[0] == '}' || strings.HasPrefix(l, "import ") {
				continue
			}
			id := identRe.FindString(l)
			if id == "" {
				bad("preambleRaw: top-level line %d not understood: %s", i+1, l)
				continue
			}
			if !seenHead[id] {
				seenHead[id] = true
				lf.preambleHeads = append(lf.preambleHeads, id)
			}
			if id != "report" {
				continue
			}
			// report[level] = matches { vs = <name> ; level := "<level>" ; matches := vs }
			if strings.TrimSpace(l) != "report[level] = matches {" || i+4 >= len(lines) || strings.TrimSpace(lines[i+4]) != "}" {
				bad("preambleRaw: report rule at line %d is not `report[level] = matches {` with a three-line body", i+1)
				continue
			}
			m1 := vsRe.FindStringSubmatch(strings.TrimSpace(lines[i+1]))
			m2 := lvRe.FindStringSubmatch(strings.TrimSpace(lines[i+2]))
			if m1 == nil || m2 == nil || strings.TrimSpace(lines[i+3]) != "matches := vs" {
				bad("preambleRaw: body of the report rule at line %d is not `vs = <name>; level := \"<level>\"; matches := vs`", i+1)
				continue
			}
			lf.reads = append(lf.reads, [2]string{m1[1], m2[1]})
		}
	}

	// ------------------------------------------------------------------ expression.go
	ef, err := parser.ParseFile(fset, repo+"/internal/generator/expression.go", nil, 0)
	if err != nil {
		bad("expression.go: %v", err)
	} else {
		if fd := funcNamed(ef, "GenerateTopLevelExpression"); fd == nil {
			bad("GenerateTopLevelExpression not found")
		} else {
			ok := false
			ast.Inspect(fd, func(n ast.Node) bool {
				if cc, isCC := n.(*ast.CaseClause); isCC && len(cc.List) == 1 && line(cc.List[0]) == "profile.TopLevelExpression" {
					ok = len(cc.Body) == 1 && line(cc.Body[0]) == "return generateTopLevel(e, iriExpander)"
				}
				return true
			})
			if !ok {
				bad("GenerateTopLevelExpression: `case profile.TopLevelExpression: return generateTopLevel(e, iriExpander)` not found")
			}
		}
		if fd := funcNamed(ef, "generateTopLevel"); fd == nil {
			bad("generateTopLevel not found")
		} else {
			n := len(fd.Body.List)
			if n < 2 || line(fd.Body.List[n-2]) != "results := Dispatch(v, iriExpander)" || line(fd.Body.List[n-1]) != "return wrapTopLevelRegoResult(exp, results, iriExpander)" {
				bad("generateTopLevel does not end with `results := Dispatch(v, iriExpander); return wrapTopLevelRegoResult(exp, results, iriExpander)`")
			}
		}
		// (d) wrapTopLevelRegoResult
		if fd := funcNamed(ef, "wrapTopLevelRegoResult"); fd == nil {
			bad("wrapTopLevelRegoResult not found")
		} else {
			ps := paramNames(fd)
			if len(ps) != 3 {
				bad("wrapTopLevelRegoResult: parameters (%s)", strings.Join(ps, ", "))
				ps = []string{"e", "results", "iriExpander"}
			}
			e, results := ps[0], ps[1]
			okBranches, headLoops, okTotal := false, 0, false
			for _, s := range fd.Body.List {
				switch st := s.(type) {
				case *ast.RangeStmt:
					// one element of `branches` per element of `results`
					if isNamed(st.X, results) {
						good := false
						if len(st.Body.List) == 1 {
							if ts, ok := st.Body.List[0].(*ast.TypeSwitchStmt); ok {
								good = len(ts.Body.List) == 2
								for _, c := range ts.Body.List {
									cc := c.(*ast.CaseClause)
									if len(cc.List) != 1 || len(cc.Body) != 1 || !strings.HasPrefix(line(cc.Body[0]), "branches = append(branches, ") {
										good = false
									}
								}
							}
						}
						if good {
							okBranches = true
						} else {
							bad("wrapTopLevelRegoResult: the loop over %s does not append exactly one branch per result", results)
						}
					}
					if isNamed(st.X, "branches") && len(st.Body.List) >= 3 && line(st.Body.List[0]) == "var acc []string" {
						// the head line, once per branch
						b := st.Body.List
						if line(b[len(b)-1]) != `branchesAcc = append(branchesAcc, strings.Join(acc, "\n"))` {
							bad("wrapTopLevelRegoResult: the rule loop does not end with `branchesAcc = append(branchesAcc, strings.Join(acc, \"\\n\"))`")
						}
						got := false
						if as, ok := b[1].(*ast.AssignStmt); ok && as.Tok == token.ASSIGN && len(as.Lhs) == 1 && isNamed(as.Lhs[0], "acc") {
							if c, ok := as.Rhs[0].(*ast.CallExpr); ok && isNamed(c.Fun, "append") && len(c.Args) == 2 && isNamed(c.Args[0], "acc") {
								if sp, ok := c.Args[1].(*ast.CallExpr); ok && line(sp.Fun) == "fmt.Sprintf" && len(sp.Args) == 2 {
									if lit, ok := sp.Args[0].(*ast.BasicLit); ok && lit.Kind == token.STRING {
										lf.headFormat, _ = strconv.Unquote(lit.Value)
										switch line(sp.Args[1]) {
										case "strings.ToLower(" + e + ".Level)":
											lf.headFn, got = ".lower", true
										case e + ".Level":
											lf.headFn, got = ".raw", true
										}
									}
								}
							}
						}
						if !got {
							bad("wrapTopLevelRegoResult: the first line of a rule is not `acc = append(acc, fmt.Sprintf(\"%%s[matches] {\", strings.ToLower(%s.Level)))`: %s", e, line(b[1]))
						}
						headLoops++
					}
				case *ast.AssignStmt:
					if len(st.Lhs) == 1 && isNamed(st.Lhs[0], "total") {
						okTotal = strings.HasSuffix(line(st.Rhs[0]), ", branchesValidation}")
					}
				}
			}
			if !okBranches {
				bad("wrapTopLevelRegoResult: `for _, r := range %s { switch ... branches = append(branches, ..) }` not found", results)
			}
			if headLoops != 1 {
				bad("wrapTopLevelRegoResult: %d loops over `branches` that start a rule", headLoops)
			}
			src := line(fd.Body)
			if !okTotal || !strings.Contains(src, `branchesValidation := strings.Join(branchesAcc, "\n\n")`) || !strings.HasSuffix(src, `return strings.Join(total, "\n\n") }`) {
				bad("wrapTopLevelRegoResult: the rules are not returned as `total := []string{.., branchesValidation}; return strings.Join(total, \"\\n\\n\")`")
			}
			if strings.Count(src, "[matches]") != 1 {
				bad("wrapTopLevelRegoResult: %d occurrences of `[matches]`", strings.Count(src, "[matches]"))
			}
		}
	}

	// ------------------------------------------------------------------ the parser: which level string is stored in which field
	pdir := repo + "/internal/parser/profile"
	files, _ := filepath.Glob(pdir + "/*.go")
	var pfiles []*ast.File
	for _, fn := range files {
		if strings.HasSuffix(fn, "_test.go") {
			continue
		}
		f, err := parser.ParseFile(fset, fn, nil, 0)
		if err != nil {
			bad("%s: %v", filepath.Base(fn), err)
			continue
		}
		pfiles = append(pfiles, f)
	}
	find := func(name string) *ast.FuncDecl {
		for _, f := range pfiles {
			if fd := funcNamed(f, name); fd != nil {
				return fd
			}
		}
		bad("%s not found in internal/parser/profile", name)
		return nil
	}
	// Parse: `xs, err := parseValidationLevel("<level>", doc, validations)` / error return / `for _, rule := range xs { profile.F = append(profile.F, rule) }`
	recognised := map[ast.Node]bool{}
	nCalls := 0
	if fd := find("Parse"); fd != nil {
		ast.Inspect(fd, func(n ast.Node) bool {
			blk, ok := n.(*ast.BlockStmt)
			if !ok {
				return true
			}
			for i, s := range blk.List {
				as, ok := s.(*ast.AssignStmt)
				if !ok || len(as.Rhs) != 1 {
					continue
				}
				c, ok := as.Rhs[0].(*ast.CallExpr)
				if !ok || !isNamed(c.Fun, "parseValidationLevel") {
					continue
				}
				nCalls++
				if len(c.Args) == 0 {
					bad("Parse: %s", line(as))
					continue
				}
				lit, okLit := c.Args[0].(*ast.BasicLit)
				xs, okXs := as.Lhs[0].(*ast.Ident)
				if len(c.Args) != 3 || !okLit || lit.Kind != token.STRING || len(as.Lhs) != 2 || !okXs || !isNamed(as.Lhs[1], "err") || i+2 >= len(blk.List) {
					bad("Parse: %s", line(as))
					continue
				}
				level, _ := strconv.Unquote(lit.Value)
				if line(blk.List[i+1]) != "if err != nil { return profile, err }" {
					bad("Parse: after %s: %s", line(as), line(blk.List[i+1]))
					continue
				}
				rs, ok := blk.List[i+2].(*ast.RangeStmt)
				if !ok || !isNamed(rs.X, xs.Name) || !isNamed(rs.Key, "_") || len(rs.Body.List) != 1 {
					bad("Parse: the statement after the error check of %s is not a loop over %s", line(as), xs.Name)
					continue
				}
				val, _ := rs.Value.(*ast.Ident)
				st, ok := rs.Body.List[0].(*ast.AssignStmt)
				fname := ""
				if ok && val != nil && len(st.Lhs) == 1 {
					if recv, fn, ok := selOf(st.Lhs[0]); ok && recv == "profile" && line(st) == fmt.Sprintf("profile.%s = append(profile.%s, %s)", fn, fn, val.Name) {
						fname = fn
						recognised[st] = true
					}
				}
				if fname == "" {
					bad("Parse: the loop over %s is not `profile.F = append(profile.F, rule)`: %s", xs.Name, line(rs.Body))
					continue
				}
				if c := field("Parse", fname); c != "" {
					lf.parserLevels = append(lf.parserLevels, [2]string{c, level})
				}
			}
			return true
		})
	}
	// no other call of parseValidationLevel, no other write to the three lists or to a `Level` field, in the parser or the generator
	total := 0
	scan := func(f *ast.File, where string) {
		ast.Inspect(f, func(n ast.Node) bool {
			switch x := n.(type) {
			case *ast.CallExpr:
				if isNamed(x.Fun, "parseValidationLevel") {
					total++
				}
			case *ast.AssignStmt:
				for _, l := range x.Lhs {
					if sel, ok := l.(*ast.SelectorExpr); ok {
						if _, isList := levelFields[sel.Sel.Name]; (isList || sel.Sel.Name == "Level") && !recognised[x] {
							bad("%s: another write to a level list or to a Level field: %s", where, line(x))
						}
					}
				}
			case *ast.UnaryExpr:
				if sel, ok := x.X.(*ast.SelectorExpr); ok && x.Op == token.AND {
					if _, isList := levelFields[sel.Sel.Name]; isList || sel.Sel.Name == "Level" {
						bad("%s: address of a level list or of a Level field taken: %s", where, line(x))
					}
				}
			}
			return true
		})
	}
	for _, f := range pfiles {
		scan(f, "internal/parser/profile")
	}
	gfiles, _ := filepath.Glob(repo + "/internal/generator/*.go")
	for _, fn := range gfiles {
		if strings.HasSuffix(fn, "_test.go") {
			continue
		}
		if f, err := parser.ParseFile(fset, fn, nil, 0); err == nil {
			scan(f, "internal/generator")
		}
	}
	if total != nCalls {
		bad("parseValidationLevel is called %d times, %d of them in the documented place", total, nCalls)
	}
	// parseValidationLevel(level, ..): r, err := ParseExpression(name, v, level, &varGenerator); rules = append(rules, r)
	if fd := find("parseValidationLevel"); fd != nil {
		ps := paramNames(fd)
		n, okArg, okApp := 0, false, false
		res := ""
		ast.Inspect(fd, func(x ast.Node) bool {
			if as, ok := x.(*ast.AssignStmt); ok && len(as.Rhs) == 1 {
				if c, ok := as.Rhs[0].(*ast.CallExpr); ok && isNamed(c.Fun, "ParseExpression") {
					n++
					if len(c.Args) == 4 && len(ps) > 0 && isNamed(c.Args[2], ps[0]) && len(as.Lhs) == 2 {
						if id, ok := as.Lhs[0].(*ast.Ident); ok {
							res, okArg = id.Name, true
						}
					}
				}
				if res != "" && line(as) == "rules = append(rules, "+res+")" {
					okApp = true
				}
			}
			return true
		})
		if n != 1 || !okArg || !okApp {
			bad("parseValidationLevel: not `r, err := ParseExpression(name, v, level, ..)` with the level parameter, followed by `rules = append(rules, r)`")
		}
		if last := fd.Body.List[len(fd.Body.List)-1]; line(last) != "return rules, nil" {
			bad("parseValidationLevel: last statement: %s", line(last))
		}
	}
	// ParseExpression(name, data, level, ..): exp := newTopLevelExpression(false, name, message, level, ..) ... return exp, nil
	if fd := find("ParseExpression"); fd != nil {
		ps := paramNames(fd)
		n, okArg := 0, false
		ast.Inspect(fd, func(x ast.Node) bool {
			if as, ok := x.(*ast.AssignStmt); ok && len(as.Rhs) == 1 {
				if c, ok := as.Rhs[0].(*ast.CallExpr); ok && isNamed(c.Fun, "newTopLevelExpression") {
					n++
					okArg = len(c.Args) == 6 && len(ps) == 4 && isNamed(c.Args[3], ps[2]) && len(as.Lhs) == 1 && isNamed(as.Lhs[0], "exp") && line(c.Args[0]) == "false"
				}
			}
			return true
		})
		if last := fd.Body.List[len(fd.Body.List)-1]; n != 1 || !okArg || line(last) != "return exp, nil" {
			bad("ParseExpression: not `exp := newTopLevelExpression(false, name, message, level, ..)` ... `return exp, nil`")
		}
	}
	// newTopLevelExpression(.., level, ..): TopLevelExpression{.., Level: level, ..}
	if fd := find("newTopLevelExpression"); fd != nil {
		ps := paramNames(fd)
		ok := false
		ast.Inspect(fd, func(x ast.Node) bool {
			if kv, isKV := x.(*ast.KeyValueExpr); isKV && isNamed(kv.Key, "Level") {
				ok = len(ps) == 6 && isNamed(kv.Value, ps[3])
			}
			return true
		})
		if last := fd.Body.List[len(fd.Body.List)-1]; !ok || line(last) != "return exp" || len(fd.Body.List) != 2 {
			bad("newTopLevelExpression: not `exp := TopLevelExpression{.., Level: level, ..}; return exp`")
		}
	}
	return lf
}

func writeLevels(repo, outDir string, facts map[string]any) {
	lf := readLevels(repo)
	pairs := func(ps [][2]string, quoteFirst bool) string {
		var parts []string
		for _, p := range ps {
			a := p[0]
			if quoteFirst {
				a = leanStr(a)
			}
			parts = append(parts, fmt.Sprintf("(%s, %s)", a, leanStr(p[1])))
		}
		return "[" + strings.Join(parts, ", ") + "]"
	}
	var b strings.Builder
	b.WriteString("import Acv.Model.Levels\n/-! GENERATED by `acvh extract` from internal/generator/generator.go, internal/generator/expression.go and internal/parser/profile — do not edit -/\nnamespace Acv.Gen\nopen Acv.Lv\n\n")
	fmt.Fprintf(&b, "/-- `ruleSet`: the profile fields whose entries are appended (each by a plain `acc = append(acc, r)`), in source order -/\ndef levelsRuleSetFields : List Field := [%s]\n\n", strings.Join(lf.ruleSetFields, ", "))
	fmt.Fprintf(&b, "/-- `preamble`: (field X of `if len(profile.X) == 0`, name x of the `default x = []` appended under it), in source order -/\ndef levelsDefaults : List (Field × String) := %s\n\n", pairs(lf.defaults, false))
	fmt.Fprintf(&b, "/-- `preambleRaw`: (name read by `vs = <name>`, string assigned to `level`) of every `report[level] = matches {..}` rule, in source order -/\ndef levelsReportReads : List (String × String) := %s\n\n", pairs(lf.reads, true))
	fmt.Fprintf(&b, "/-- the parser: (field the results of `parseValidationLevel(\"<level>\", ..)` are appended to, that level string - stored in `Level` of every entry) -/\ndef levelsParserLevels : List (Field × String) := %s\n\n", pairs(lf.parserLevels, false))
	fmt.Fprintf(&b, "/-- `wrapTopLevelRegoResult`: what is substituted into the head format, once per branch -/\ndef levelsHeadFn : HeadFn := %s\n\n", lf.headFn)
	fmt.Fprintf(&b, "/-- `wrapTopLevelRegoResult`: the format of the first line of a generated rule -/\ndef levelsHeadFormat : String := %s\n\n", leanStr(lf.headFormat))
	fmt.Fprintf(&b, "/-- `preambleRaw`: the names the fixed preamble defines itself (first identifier of every top-level line), in source order -/\ndef levelsPreambleHeads : List String := %s\n\n", leanStrList(lf.preambleHeads))
	fmt.Fprintf(&b, "/-- what does not have the documented shape -/\ndef levelsUnreadable : List String := %s\n\n", leanStrList(lf.unreadable))
	b.WriteString("/-- the table that drives `Acv.Lv.moduleNames` -/\ndef levelsTable : Table :=\n  { ruleSetFields := levelsRuleSetFields, defaults := levelsDefaults, reportReads := levelsReportReads,\n    parserLevels := levelsParserLevels, headFn := levelsHeadFn }\n\nend Acv.Gen\n")
	if err := os.WriteFile(outDir+"/Levels.lean", []byte(b.String()), 0644); err != nil {
		panic(err)
	}
	facts["levels_unreadable"] = lf.unreadable
}
