package main

import (
	"encoding/json"
	"fmt"
	"io"
	"regexp"
)

type C07Case struct {
	Op      string `json:"op"`
	Id      int    `json:"id"`
	Kind    string `json:"kind"`
	Size    int    `json:"size"`
	Profile string `json:"profile"`
	Data    string `json:"data"`
}

var pathShapes = []Path{
	PP("p0", false), PP("p0", true), PType(),
	{Seq: []Path{PP("p0", false), PP("p1", false)}},
	{Alt: []Path{PP("p0", false), PP("p1", false)}},
	{Seq: []Path{PP("p0", false), {Alt: []Path{PP("p1", false), PP("p2", true)}}, PP("p3", false)}},
	{Alt: []Path{{Seq: []Path{PP("p0", false), PP("p1", false)}}, PP("p2", false), {Seq: []Path{PP("p3", true), PType()}}}},
	{Seq: []Path{{Alt: []Path{PP("p0", false), PP("p1", false)}}, {Alt: []Path{PP("p2", false), PP("p3", false)}}, {Alt: []Path{PP("p0", true), PP("p1", true)}}}},
	// custom (annotation) property steps, direct and inverse, in every position of a sequence and inside alternatives
	PCustom("wadus", false), PCustom("wadus", true),
	{Seq: []Path{PCustom("wadus", false), PP("p0", false)}},
	{Seq: []Path{PCustom("wadus", true), PP("p0", false)}},
	{Seq: []Path{PP("p0", false), PCustom("wadus", false)}},
	{Seq: []Path{PP("p0", true), PCustom("wadus", true)}},
	{Seq: []Path{PP("p0", true), PCustom("wadus", true), PP("p1", false)}},
	{Seq: []Path{{Alt: []Path{PP("p0", true), PP("p1", true)}}, PCustom("wadus", true), PCustom("maturity", false)}},
	{Alt: []Path{PCustom("wadus", true), {Seq: []Path{PP("p0", false), PCustom("wadus", true)}}, PType()}},
}

func atomOfKind(kind string, p Path) Atom {
	a := Atom{Kind: kind, Path: p}
	switch kind {
	case "in", "containsAll", "containsSome":
		a.Vals = []string{"a", "b"}
	case "lessThanProperty", "lessThanOrEqualsToProperty", "equalsToProperty", "disjointWithProperty", "moreThanProperty", "moreThanOrEqualsToProperty":
		q := PP("p1", false)
		a.Other = &q
	case "datatype":
		a.Dt = "http://www.w3.org/2001/XMLSchema#string"
	case "pattern":
		a.Lit, a.AnchorStart, a.AnchorEnd = "a1", true, true
	case "uniqueValues":
		t := true
		a.UArg = &t
	default:
		a.Arg = i64p(1)
	}
	return a
}

func genC07(g *G, n int, out io.Writer, full bool) {
	enc := json.NewEncoder(out)
	id := 0
	emit := func(kind string, size int, prof ProfileSpec) {
		prof.Name = fmt.Sprintf("c07 %s %d", kind, size)
		enc.Encode(C07Case{Op: "c07", Id: id, Kind: kind, Size: size, Profile: prof.Render(), Data: "[]"})
		id++
	}
	// every constraint kind x every path shape (alone, negated, and inside a nested constraint)
	allKinds := append([]string{}, atomKinds...)
	for _, k := range allKinds {
		for si, sh := range pathShapes {
			prof := ProfileSpec{Atoms: []Atom{atomOfKind(k, sh)}, Paths: []Path{sh}}
			prof.Validations = []Validation{
				{Name: "plain", Class: NS + "T", Rule: Rule{Atom: ip(0)}},
				{Name: "negated", Class: NS + "T", Rule: Rule{Not: &Rule{Atom: ip(0)}}},
				{Name: "nested", Class: NS + "T", Rule: Rule{Nested: &Rule{Atom: ip(0)}, PathIx: ip(0)}},
			}
			emit("kind:"+k, si, prof)
		}
	}
	// the same matrix for the constraints that take a SECOND path, with tabs, line breaks and runs of blanks as the optional
	// whitespace of both paths (the text of a path is quoted in the generated code in more than one place)
	for wi, ws := range []string{"\t", "\n", "  ", " \t ", "\r\n"} {
		w := ws
		pathWhitespace = func() string { return w }
		for _, k := range []string{"lessThanProperty", "lessThanOrEqualsToProperty", "equalsToProperty", "disjointWithProperty", "moreThanProperty", "moreThanOrEqualsToProperty", "minCount", "pattern", "in"} {
			sh := Path{Seq: []Path{PP("p0", false), {Alt: []Path{PP("p1", false), PP("p2", true)}}}}
			a := atomOfKind(k, sh)
			if a.Other != nil {
				o := Path{Seq: []Path{PP("p3", false), PP("p1", false)}}
				a.Other = &o
			}
			prof := ProfileSpec{Atoms: []Atom{a}, Paths: []Path{sh}}
			prof.Validations = []Validation{
				{Name: "plain", Class: NS + "T", Rule: Rule{Atom: ip(0)}},
				{Name: "negated", Class: NS + "T", Rule: Rule{Not: &Rule{Atom: ip(0)}}},
				{Name: "nested", Class: NS + "T", Rule: Rule{Nested: &Rule{Atom: ip(0)}, PathIx: ip(0)}},
			}
			emit("path-whitespace:"+k, wi, prof)
		}
		pathWhitespace = nil
	}
	// one validation listed under two levels, alone in the second one (and next to another validation)
	for li, lv := range [][2]string{{"violation", "warning"}, {"warning", "info"}, {"violation", "info"}} {
		for _, alone := range []bool{true, false} {
			prof := ProfileSpec{Atoms: []Atom{atomOfKind("minCount", PP("p0", false))}}
			prof.Validations = []Validation{{Name: "twice", Class: NS + "T", Rule: Rule{Atom: ip(0)}}, {Name: "other", Class: NS + "T", Rule: Rule{Not: &Rule{Atom: ip(0)}}}}
			prof.Levels = map[string][]string{lv[0]: {"twice", "other"}, lv[1]: {"twice"}}
			if !alone {
				prof.Levels[lv[1]] = []string{"other", "twice"}
			}
			emit("two-levels", li*2+map[bool]int{true: 0, false: 1}[alone], prof)
		}
	}
	// list constraints with an EMPTY list (legal YAML; nothing is allowed / nothing is required)
	for _, k := range []string{"in", "containsAll", "containsSome"} {
		a := atomOfKind(k, PP("p0", false))
		a.Vals = []string{}
		prof := ProfileSpec{Atoms: []Atom{a}, Paths: []Path{PP("p1", false)}}
		prof.Validations = []Validation{
			{Name: "plain", Class: NS + "T", Rule: Rule{Atom: ip(0)}},
			{Name: "negated", Class: NS + "T", Rule: Rule{Not: &Rule{Atom: ip(0)}}},
			{Name: "nested", Class: NS + "T", Rule: Rule{Nested: &Rule{Atom: ip(0)}, PathIx: ip(0)}},
		}
		emit("empty-list:"+k, 0, prof)
	}
	// list constraints with thousands of values: the translator writes the whole set, and its trace text, on single lines
	for _, nvals := range []int{3000, 7000} {
		for _, k := range []string{"in", "containsAll"} {
			a := atomOfKind(k, PP("p0", false))
			a.Vals = nil
			for x := 0; x < nvals; x++ {
				a.Vals = append(a.Vals, fmt.Sprintf("value%06d", x))
			}
			emit("long-list:"+k, nvals, ProfileSpec{Atoms: []Atom{a}, Validations: []Validation{{Name: "big", Class: NS + "T", Rule: Rule{Atom: ip(0)}}}})
		}
	}
	// 1..N quantified constraints in ONE validation (each takes a fresh variable)
	widths := []int{1, 2, 5, 10, 11, 12, 13, 24, 25, 26, 27, 30, 40}
	if full {
		widths = nil
		for w := 1; w <= 60; w++ {
			widths = append(widths, w)
		}
	}
	for _, wd := range widths {
		var atoms []Atom
		var paths []Path
		var body []Rule
		for j := 0; j < wd; j++ {
			atoms = append(atoms, Atom{Kind: "minCount", Path: PP(fmt.Sprintf("q%d", j), false), Arg: i64p(1)})
			paths = append(paths, PP(fmt.Sprintf("c%d", j), false))
			r := Rule{Nested: &Rule{Atom: ip(j)}, PathIx: ip(j)}
			if j%3 == 1 {
				r.Q = &Quant{Op: "ge", K: 1}
			}
			if j%3 == 2 {
				r.Q = &Quant{Op: "le", K: 2}
			}
			body = append(body, r)
		}
		emit("width", wd, ProfileSpec{Atoms: atoms, Paths: paths, Validations: []Validation{{Name: "wide", Class: NS + "T", Rule: Rule{And: body}}}})
	}
	// nesting depth 1..D
	depths := []int{1, 2, 3, 4, 5, 6, 7, 8}
	if full {
		depths = append(depths, 9, 10) // OPA's compile time grows ~3.7x per level (4 s at 8, 58 s at 10)
	}
	for _, d := range depths {
		r := Rule{Atom: ip(0)}
		for k := 0; k < d; k++ {
			in := r
			r = Rule{Nested: &in, PathIx: ip(0)}
			if k%2 == 1 {
				r.Q = &Quant{Op: "ge", K: 1}
			}
		}
		emit("depth", d, ProfileSpec{Atoms: []Atom{{Kind: "minCount", Path: PP("p0", false), Arg: i64p(1)}}, Paths: []Path{PP("c", false)},
			Validations: []Validation{{Name: "deep", Class: NS + "T", Rule: r}}})
	}
	// 1..V validations over the three levels
	counts := []int{1, 2, 10, 30}
	if full {
		counts = append(counts, 60, 100)
	}
	for _, v := range counts {
		var vals []Validation
		for k := 0; k < v; k++ {
			vals = append(vals, Validation{Name: fmt.Sprintf("v%d", k), Class: NS + "T", Rule: Rule{Atom: ip(0)}, Level: []string{"violation", "warning", "info"}[k%3]})
		}
		emit("validations", v, ProfileSpec{Atoms: []Atom{{Kind: "minCount", Path: PP("p0", false), Arg: i64p(1)}}, Validations: vals})
	}
	// random formulas with all connectives
	maxBranches = 24
	for i := 0; i < n; i++ {
		c := genC01Graph(g, i, false)
		emit("random", i, ProfileSpec{Atoms: c.Atoms, Paths: c.Paths, Validations: c.Validations})
	}
	// messages quoting node properties: 0..6 placeholders, the same property several times, one IRI under two aliases
	// (shapes / raml-shapes are both built in), on rules with one and with several generated branches
	phPool := []string{"ex.p0", "ex.p1", "ex.p0", "shapes.schema", "raml-shapes.schema", "core.name", "ex.p1"}
	nMsg := 14
	if full {
		nMsg = 120
	}
	for i := 0; i < nMsg; i++ {
		k := i % 7
		msg := "m"
		for j := 0; j < k; j++ {
			ph := phPool[(i/7+j*(1+i%3))%len(phPool)]
			if i < 7 {
				ph = phPool[j%len(phPool)] // the first seven: the pool in order, so p0 is repeated from k = 3 on
			}
			msg += fmt.Sprintf(" [{{%s%s%s}}]", []string{"", " "}[j%2], ph, []string{"", " "}[(i+j)%2])
		}
		rule := Rule{Atom: ip(0)}
		if i%2 == 1 {
			rule = Rule{Or: []Rule{{Atom: ip(0)}, {And: []Rule{{Atom: ip(1)}, {Not: &Rule{Atom: ip(0)}}}}}}
		}
		emit("message", i, ProfileSpec{Atoms: []Atom{{Kind: "minCount", Path: PP("p0", false), Arg: i64p(1)}, {Kind: "maxCount", Path: PP("p1", false), Arg: i64p(2)}},
			Validations: []Validation{{Name: "msg", Class: NS + "T", Rule: rule, Message: msg}}})
	}
	// profile names that must sanitise into a package name
	for i, name := range []string{"a", "A b", "1.0", "é", "--", "x_y", "profile", "package", "data", "input", "", " "} {
		p := ProfileSpec{Atoms: []Atom{{Kind: "minCount", Path: PP("p0", false), Arg: i64p(1)}}, Validations: []Validation{{Name: "v", Class: NS + "T", Rule: Rule{Atom: ip(0)}}}}
		p.Name = name
		enc.Encode(C07Case{Op: "c07", Id: id, Kind: "name", Size: i, Profile: p.Render(), Data: "[]"})
		id++
	}
	// texts the translator pastes into the module (validation name, message, listed values, pattern, profile name) holding one
	// character of each class a string-quoting routine may treat specially: C0 controls with and without a short escape, DEL, C1,
	// separators, the byte-order mark, non-characters, private use, astral printable and astral non-printable (tag characters)
	for i, ch := range []string{"\a", "\b", "\v", "\f", "\x00", "\x1b", "\x7f", "\u0085", "\u009f", "\u00a0", "\u00ad", "\u2028", "\ufeff", "\ufffe", "\uffff",
		"\ue000", "\U0001f600", "\U000e0062", "\U000f0000", "\U0010ffff", "\\", "\"", "`"} {
		c := ch
		p := ProfileSpec{Atoms: []Atom{{Kind: "in", Path: PP("p0", false), Vals: []string{"a" + c + "b", c}}, {Kind: "pattern", Path: PP("p1", false), Lit: "x" + regexp.QuoteMeta(c)}},
			Validations: []Validation{{Name: "v" + c + "w", Class: NS + "T", Rule: Rule{And: []Rule{{Atom: ip(0)}, {Atom: ip(1)}}}, Message: "m " + c + " {{ex.p0}} " + c}}}
		p.Name = "n" + c
		enc.Encode(C07Case{Op: "c07", Id: id, Kind: "text", Size: i, Profile: p.Render(), Data: "[]"})
		id++
	}
}
