package main

// Translator, part 2d: a STRICT reading of the chain that gives every comparison-like constraint keyword its meaning
// (Acv/Gen/Operators.lean):
//
//	ParseConstraint (constraintsparser.go)   keyword -> how it is read -> constructor (+ operation constant), in source order
//	newMinCount .. / newLessThan .. / parseMinInclusive ..   constructor -> (base constructor, constants, component name)
//	CardinalityOperation.String (variables.go)               operation constant -> operator text (property comparisons, quantified constraints)
//	obtainCondition (generator/count.go)                     qualifier constant -> operator text
//	GenerateNumericComparison (generator/numericcomparison.go) operation constant -> (component name, operator text)
//	the `if X.Negated {..} else {..}` of the three generators  format of the deciding line under each polarity
//
// Anything that does not have the documented shape lands in `operatorsUnreadable`, and theorem `source_readable` fails.

import (
	"fmt"
	"go/ast"
	"go/parser"
	"go/token"
	"os"
	"strings"
)

type opStep struct {
	key, conv, cond, ctor, op string
}

type opCtor struct {
	name, base string
	consts     []string
	lits       []string
	compName   string
}

type opFacts struct {
	steps      []opStep
	ctors      []opCtor
	opString   [][2]string
	countCond  [][2]string
	numSwitch  [][3]string
	polarity   [][3]string // (generator function, "neg"|"pos", format)
	unreadable []string
}

var opConsts = map[string]bool{"LT": true, "LTEQ": true, "EQ": true, "NEQ": true, "GT": true, "GTEQ": true,
	"Min": true, "Max": true, "Exact": true, "StringLength": true, "ItemsInArray": true}

func parseGo(fset *token.FileSet, file string) *ast.File {
	f, err := parser.ParseFile(fset, file, nil, 0)
	if err != nil {
		panic(err)
	}
	return f
}

// constraint.Get("K") or constraint.Get("K").Conv()
func getCall(fset *token.FileSet, e ast.Expr) (key, conv string, ok bool) {
	call, isCall := e.(*ast.CallExpr)
	if !isCall {
		return
	}
	sel, isSel := call.Fun.(*ast.SelectorExpr)
	if !isSel {
		return
	}
	if exprText(fset, sel.X) == "constraint" && sel.Sel.Name == "Get" && len(call.Args) == 1 {
		return strLit(call.Args[0]), "", true
	}
	if inner, isInner := sel.X.(*ast.CallExpr); isInner && len(call.Args) == 0 {
		if k, c, ok2 := getCall(fset, inner); ok2 && c == "" {
			return k, sel.Sel.Name, true
		}
	}
	return
}

func readOperators(repo string) opFacts {
	var of opFacts
	bad := func(format string, a ...any) { of.unreadable = append(of.unreadable, fmt.Sprintf(format, a...)) }
	fset := token.NewFileSet()
	prof := repo + "/internal/parser/profile/"

	// ---- ParseConstraint ----
	cp := parseGo(fset, prof+"constraintsparser.go")
	pc := funcNamed(cp, "ParseConstraint")
	if pc == nil {
		bad("ParseConstraint not found")
	} else {
		curKey, curConv, curVar := "", "", ""
		pending := false
		for _, st := range pc.Body.List {
			switch s := st.(type) {
			case *ast.AssignStmt:
				if len(s.Rhs) != 1 {
					bad("ParseConstraint: assignment with %d right-hand sides", len(s.Rhs))
					continue
				}
				k, c, ok := getCall(fset, s.Rhs[0])
				if !ok {
					bad("ParseConstraint: statement %q is not a read of a keyword", exprText(fset, s))
					continue
				}
				if pending {
					bad("ParseConstraint: keyword %q is read and never used", curKey)
				}
				curKey, curConv, pending = k, c, true
				curVar = exprText(fset, s.Lhs[0])
			case *ast.IfStmt:
				if !pending {
					bad("ParseConstraint: an if statement that follows no keyword read: %q", exprText(fset, s.Cond))
					continue
				}
				if s.Else != nil || s.Init != nil {
					bad("ParseConstraint: if statement of keyword %q has an else or an init", curKey)
				}
				cond := strings.ReplaceAll(exprText(fset, s.Cond), curVar+".", "_.")
				step := opStep{key: curKey, conv: curConv, cond: cond}
				appends := 0
				ruleCalls := map[string]*ast.CallExpr{}
				ast.Inspect(s.Body, func(n ast.Node) bool {
					as, ok := n.(*ast.AssignStmt)
					if ok && len(as.Rhs) == 1 {
						if call, isCall := as.Rhs[0].(*ast.CallExpr); isCall {
							ruleCalls[exprText(fset, as.Lhs[0])] = call
						}
					}
					return true
				})
				ast.Inspect(s.Body, func(n ast.Node) bool {
					call, ok := n.(*ast.CallExpr)
					if !ok || exprText(fset, call.Fun) != "append" || len(call.Args) != 2 || exprText(fset, call.Args[0]) != "acc" {
						return true
					}
					appends++
					var ctor *ast.CallExpr
					switch a := call.Args[1].(type) {
					case *ast.CallExpr:
						ctor = a
					case *ast.Ident:
						ctor = ruleCalls[a.Name]
					}
					if ctor == nil {
						bad("ParseConstraint: keyword %q appends something that is not a constructor call", curKey)
						return true
					}
					step.ctor = exprText(fset, ctor.Fun)
					falses := 0
					for _, a := range ctor.Args {
						if id, isId := a.(*ast.Ident); isId {
							if id.Name == "false" {
								falses++
							}
							if id.Name == "true" {
								bad("ParseConstraint: keyword %q is built negated", curKey)
							}
							if opConsts[id.Name] {
								if step.op != "" {
									bad("ParseConstraint: keyword %q passes two operation constants", curKey)
								}
								step.op = id.Name
							}
						}
					}
					if falses != 1 {
						bad("ParseConstraint: constructor of keyword %q does not get exactly one `false` (the Negated flag)", curKey)
					}
					return true
				})
				if appends != 1 {
					bad("ParseConstraint: keyword %q appends %d rules", curKey, appends)
				}
				of.steps = append(of.steps, step)
				pending = false
			case *ast.DeclStmt:
				if exprText(fset, s) != "var acc []Rule" {
					bad("ParseConstraint: declaration %q", exprText(fset, s))
				}
			case *ast.ReturnStmt:
				if exprText(fset, s) != "return acc, nil" {
					bad("ParseConstraint: return %q", exprText(fset, s))
				}
			default:
				bad("ParseConstraint: statement %q", exprText(fset, st))
			}
		}
		if pending {
			bad("ParseConstraint: keyword %q is read and never used", curKey)
		}
	}

	// ---- constructors ----
	bases := map[string]bool{"newCount": true, "newPropertyComparison": true, "newNumericComparison": true}
	for _, file := range []string{"count.go", "propertycomparison.go", "numericcomparison.go"} {
		f := parseGo(fset, prof+file)
		for _, d := range f.Decls {
			fd, ok := d.(*ast.FuncDecl)
			if !ok || fd.Recv != nil || fd.Body == nil || bases[fd.Name.Name] {
				continue
			}
			var c opCtor
			c.name = fd.Name.Name
			calls := 0
			ast.Inspect(fd.Body, func(n ast.Node) bool {
				switch x := n.(type) {
				case *ast.CallExpr:
					if id, isId := x.Fun.(*ast.Ident); isId && bases[id.Name] {
						calls++
						c.base = id.Name
						for i, a := range x.Args {
							switch v := a.(type) {
							case *ast.Ident:
								if opConsts[v.Name] {
									c.consts = append(c.consts, v.Name)
								}
								if i == 0 && v.Name != "negated" {
									bad("%s: the first argument of %s is %q, not the parameter `negated`", fd.Name.Name, id.Name, v.Name)
								}
							case *ast.BasicLit:
								c.lits = append(c.lits, strLit(v))
							}
						}
					}
				case *ast.AssignStmt:
					if len(x.Lhs) == 1 && len(x.Rhs) == 1 {
						if sel, isSel := x.Lhs[0].(*ast.SelectorExpr); isSel && sel.Sel.Name == "Name" {
							if c.compName != "" {
								bad("%s: Name assigned twice", fd.Name.Name)
							}
							c.compName = strLit(x.Rhs[0])
						} else if isSel {
							bad("%s: assignment to field %s", fd.Name.Name, sel.Sel.Name)
						}
					}
				}
				return true
			})
			if calls == 0 {
				continue
			}
			if calls != 1 {
				bad("%s: %d base constructor calls", fd.Name.Name, calls)
			}
			of.ctors = append(of.ctors, c)
		}
	}

	// ---- CardinalityOperation.String ----
	vf := parseGo(fset, prof+"variables.go")
	found := false
	for _, d := range vf.Decls {
		fd, ok := d.(*ast.FuncDecl)
		if !ok || fd.Recv == nil || fd.Name.Name != "String" || exprText(fset, fd.Recv.List[0].Type) != "CardinalityOperation" {
			continue
		}
		found = true
		of.opString = switchTable(fset, fd, bad)
	}
	if !found {
		bad("CardinalityOperation.String not found")
	}

	// ---- obtainCondition ----
	gen := repo + "/internal/generator/"
	cf := parseGo(fset, gen+"count.go")
	if oc := funcNamed(cf, "obtainCondition"); oc != nil {
		of.countCond = switchTable(fset, oc, bad)
	} else {
		bad("obtainCondition not found")
	}
	if gc := funcNamed(cf, "GenerateCount"); gc == nil || !strings.Contains(exprText(fset, gc.Body), "generateCountRule(count, obtainCondition(count.Qualifier), iriExpander)") {
		bad("GenerateCount does not pass obtainCondition(count.Qualifier) to generateCountRule")
	}

	// ---- GenerateNumericComparison ----
	nf := parseGo(fset, gen+"numericcomparison.go")
	if gn := funcNamed(nf, "GenerateNumericComparison"); gn != nil {
		ast.Inspect(gn.Body, func(n ast.Node) bool {
			cc, ok := n.(*ast.CaseClause)
			if !ok {
				return true
			}
			if len(cc.List) == 0 {
				if len(cc.Body) != 1 || !strings.HasPrefix(exprText(fset, cc.Body[0]), "panic(") {
					bad("GenerateNumericComparison: the default case is not a panic")
				}
				return false
			}
			if len(cc.List) != 1 || len(cc.Body) != 1 {
				bad("GenerateNumericComparison: case %q", exprText(fset, cc))
				return false
			}
			ret, isRet := cc.Body[0].(*ast.ReturnStmt)
			if !isRet || len(ret.Results) != 1 {
				bad("GenerateNumericComparison: case %q does not return", exprText(fset, cc.List[0]))
				return false
			}
			call, isCall := ret.Results[0].(*ast.CallExpr)
			if !isCall || exprText(fset, call.Fun) != "generateNumericRule" || len(call.Args) != 4 || exprText(fset, call.Args[0]) != "num" {
				bad("GenerateNumericComparison: case %q does not return generateNumericRule(num, .., .., ..)", exprText(fset, cc.List[0]))
				return false
			}
			of.numSwitch = append(of.numSwitch, [3]string{strings.TrimPrefix(exprText(fset, cc.List[0]), "profile."), strLit(call.Args[1]), strLit(call.Args[2])})
			return false
		})
		if !strings.Contains(exprText(fset, gn.Body), "switch num.Operation {") {
			bad("GenerateNumericComparison does not switch on num.Operation")
		}
	} else {
		bad("GenerateNumericComparison not found")
	}

	// ---- the deciding line under each polarity ----
	pf := parseGo(fset, gen+"propertycomparison.go")
	for _, g := range []struct {
		f    *ast.File
		fn   string
		cond string
	}{{cf, "generateCountRule", "count.Negated"}, {nf, "generateNumericRule", "num.Negated"}, {pf, "GeneratePropertyComparison", "comparison.Negated"}} {
		fd := funcNamed(g.f, g.fn)
		if fd == nil {
			bad("%s not found", g.fn)
			continue
		}
		ifs := 0
		ast.Inspect(fd.Body, func(n ast.Node) bool {
			is, ok := n.(*ast.IfStmt)
			if !ok || exprText(fset, is.Cond) != g.cond {
				return true
			}
			ifs++
			els, isBlock := is.Else.(*ast.BlockStmt)
			if !isBlock {
				bad("%s: `if %s` has no plain else", g.fn, g.cond)
				return false
			}
			for _, br := range []struct {
				tag  string
				body *ast.BlockStmt
			}{{"neg", is.Body}, {"pos", els}} {
				ast.Inspect(br.body, func(m ast.Node) bool {
					call, ok := m.(*ast.CallExpr)
					if ok && exprText(fset, call.Fun) == "fmt.Sprintf" && len(call.Args) >= 1 {
						args := []string{}
						for _, a := range call.Args[1:] {
							args = append(args, exprText(fset, a))
						}
						of.polarity = append(of.polarity, [3]string{g.fn, br.tag, strLit(call.Args[0]) + " <- " + strings.Join(args, ", ")})
					}
					return true
				})
			}
			return false
		})
		if ifs != 1 {
			bad("%s: %d statements `if %s`", g.fn, ifs, g.cond)
		}
	}
	return of
}

// the (case constant -> returned string literal) pairs of the single switch of a function; `default` for the default case.
// `return fmt.Sprintf("lit")` and `return "lit"` both count.
func switchTable(fset *token.FileSet, fd *ast.FuncDecl, bad func(string, ...any)) [][2]string {
	var out [][2]string
	ast.Inspect(fd.Body, func(n ast.Node) bool {
		cc, ok := n.(*ast.CaseClause)
		if !ok {
			return true
		}
		label := "default"
		if len(cc.List) == 1 {
			label = strings.TrimPrefix(exprText(fset, cc.List[0]), "profile.")
		} else if len(cc.List) > 1 {
			bad("%s: case with several constants", fd.Name.Name)
		}
		if len(cc.Body) != 1 {
			bad("%s: case %s has %d statements", fd.Name.Name, label, len(cc.Body))
			return false
		}
		ret, isRet := cc.Body[0].(*ast.ReturnStmt)
		if !isRet || len(ret.Results) != 1 {
			if label == "default" && strings.HasPrefix(exprText(fset, cc.Body[0]), "panic(") {
				return false
			}
			bad("%s: case %s does not return one value", fd.Name.Name, label)
			return false
		}
		var lit ast.Expr = ret.Results[0]
		if call, isCall := lit.(*ast.CallExpr); isCall {
			if exprText(fset, call.Fun) != "fmt.Sprintf" || len(call.Args) != 1 {
				bad("%s: case %s returns a computed value", fd.Name.Name, label)
				return false
			}
			lit = call.Args[0]
		}
		if _, isLit := lit.(*ast.BasicLit); !isLit {
			bad("%s: case %s returns a computed value", fd.Name.Name, label)
			return false
		}
		out = append(out, [2]string{label, strLit(lit)})
		return false
	})
	return out
}

func writeOperators(repo, outDir string, facts map[string]any) {
	of := readOperators(repo)
	var b strings.Builder
	b.WriteString("/-! GENERATED by `acvh extract` from internal/parser/profile/{constraintsparser,count,propertycomparison,numericcomparison,variables}.go and internal/generator/{count,numericcomparison,propertycomparison}.go — do not edit -/\nnamespace Acv.Gen\n\n")
	b.WriteString("/-- `ParseConstraint`, one entry per keyword in SOURCE ORDER: (keyword, conversion applied to the value (\"\" = none), guard of the if statement, constructor, operation constant passed (\"\" = none)) -/\ndef opSteps : List (String × String × String × String × String) := [\n")
	for i, s := range of.steps {
		sep := ","
		if i == len(of.steps)-1 {
			sep = ""
		}
		fmt.Fprintf(&b, "  (%s, %s, %s, %s, %s)%s\n", leanStr(s.key), leanStr(s.conv), leanStr(s.cond), leanStr(s.ctor), leanStr(s.op), sep)
	}
	b.WriteString("]\n\n/-- the constructors: (name, base constructor, constants passed to it, string literals passed to it, text assigned to `.Name` (\"\" = none)) -/\ndef opCtors : List (String × String × List String × List String × String) := [\n")
	for i, c := range of.ctors {
		sep := ","
		if i == len(of.ctors)-1 {
			sep = ""
		}
		fmt.Fprintf(&b, "  (%s, %s, %s, %s, %s)%s\n", leanStr(c.name), leanStr(c.base), leanStrList(c.consts), leanStrList(c.lits), leanStr(c.compName), sep)
	}
	pairs2 := func(ps [][2]string) string {
		var parts []string
		for _, p := range ps {
			parts = append(parts, fmt.Sprintf("(%s, %s)", leanStr(p[0]), leanStr(p[1])))
		}
		return "[" + strings.Join(parts, ", ") + "]"
	}
	fmt.Fprintf(&b, "]\n\n/-- `CardinalityOperation.String`: (constant, text) -/\ndef opStringTable : List (String × String) := %s\n\n", pairs2(of.opString))
	fmt.Fprintf(&b, "/-- `obtainCondition`: (qualifier constant or `default`, text) -/\ndef opCountCond : List (String × String) := %s\n\n", pairs2(of.countCond))
	var parts []string
	for _, p := range of.numSwitch {
		parts = append(parts, fmt.Sprintf("(%s, %s, %s)", leanStr(p[0]), leanStr(p[1]), leanStr(p[2])))
	}
	fmt.Fprintf(&b, "/-- `GenerateNumericComparison`: (operation constant, component name, operator text) -/\ndef opNumericSwitch : List (String × String × String) := [%s]\n\n", strings.Join(parts, ", "))
	parts = nil
	for _, p := range of.polarity {
		parts = append(parts, fmt.Sprintf("(%s, %s, %s)", leanStr(p[0]), leanStr(p[1]), leanStr(p[2])))
	}
	fmt.Fprintf(&b, "/-- the Sprintf calls under `if X.Negated` (\"neg\") and under its else (\"pos\"): (generator, branch, format <- arguments) -/\ndef opPolarity : List (String × String × String) := [\n  %s]\n\n", strings.Join(parts, ",\n  "))
	fmt.Fprintf(&b, "/-- what does not have the documented shape -/\ndef operatorsUnreadable : List String := %s\n\nend Acv.Gen\n", leanStrList(of.unreadable))
	if err := os.WriteFile(outDir+"/Operators.lean", []byte(b.String()), 0644); err != nil {
		panic(err)
	}
	facts["operator_steps"] = len(of.steps)
	facts["operators_unreadable"] = of.unreadable
}
