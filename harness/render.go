package main

import (
	"bufio"
	"encoding/json"
	"fmt"
	"io"
)

// render: re-create the profile and data texts of c01 / c02 cases from their abstract parts (used by the
// replay minimiser after it shrank the abstract case)
func runRender(in io.Reader, out io.Writer) {
	sc := bufio.NewScanner(in)
	sc.Buffer(make([]byte, 1<<20), 1<<28)
	enc := json.NewEncoder(out)
	for sc.Scan() {
		var head struct {
			Op string `json:"op"`
		}
		json.Unmarshal(sc.Bytes(), &head)
		switch head.Op {
		case "c01":
			var c C01Case
			json.Unmarshal(sc.Bytes(), &c)
			prof := ProfileSpec{Name: fmt.Sprintf("min_%d", c.Id), Atoms: c.Atoms, Paths: c.Paths, Validations: c.Validations}
			c.Profile = prof.Render()
			c.Tree = treeOf(c.Profile)
			c.Data = c.Graph.RenderFlat()
			enc.Encode(c)
		case "c02":
			var c C02Case
			json.Unmarshal(sc.Bytes(), &c)
			fillC02(&c)
			enc.Encode(c)
		default:
			out.Write(append(sc.Bytes(), '\n'))
		}
	}
}
