package main

// Translator, part 1: the path grammar.  Reads (a) the composite literal `g` in
// internal/parser/path/peg.go and (b) the documented grammar third_party/propertyparser.peg, and
// renders both as Lean terms of type Acv.Grammar (Acv/Gen/PathGrammar.lean).

import (
	"fmt"
	"go/ast"
	"go/parser"
	"go/token"
	"os"
	"strconv"
	"strings"
)

type PE struct {
	Kind    string // lit cls any seq choice star plus opt notp andp ref label action
	Str     string // lit value / ref name / label / action name
	Chars   []rune
	Ranges  []rune // pairs
	Inv     bool
	IgnCase bool
	Kids    []*PE
}

type PRule struct {
	Name string
	Expr *PE
}

func leanChars(rs []rune) string {
	var parts []string
	for _, r := range rs {
		parts = append(parts, fmt.Sprintf("Char.ofNat %d", r))
	}
	return "[" + strings.Join(parts, ", ") + "]"
}

func leanStr(s string) string { return strconv.Quote(s) }

func (e *PE) Lean() string {
	kids := func() string {
		var parts []string
		for _, k := range e.Kids {
			parts = append(parts, k.Lean())
		}
		return "[" + strings.Join(parts, ", ") + "]"
	}
	switch e.Kind {
	case "lit":
		return fmt.Sprintf("(.lit %s)", leanChars([]rune(e.Str)))
	case "cls":
		var pairs []string
		for i := 0; i+1 < len(e.Ranges); i += 2 {
			pairs = append(pairs, fmt.Sprintf("(Char.ofNat %d, Char.ofNat %d)", e.Ranges[i], e.Ranges[i+1]))
		}
		return fmt.Sprintf("(.cls %s [%s] %v)", leanChars(e.Chars), strings.Join(pairs, ", "), e.Inv)
	case "any":
		return ".any"
	case "seq", "choice":
		return fmt.Sprintf("(.%s %s)", e.Kind, kids())
	case "star", "plus", "opt", "notp", "andp":
		return fmt.Sprintf("(.%s %s)", e.Kind, e.Kids[0].Lean())
	case "ref":
		return fmt.Sprintf("(.ref %s)", leanStr(e.Str))
	case "label", "action":
		return fmt.Sprintf("(.%s %s %s)", e.Kind, leanStr(e.Str), e.Kids[0].Lean())
	}
	panic("kind " + e.Kind)
}

func leanGrammar(name string, rules []PRule) string {
	var b strings.Builder
	fmt.Fprintf(&b, "def %s : Grammar := ⟨[\n", name)
	for i, r := range rules {
		sep := ","
		if i == len(rules)-1 {
			sep = ""
		}
		fmt.Fprintf(&b, "  (%s, %s)%s\n", leanStr(r.Name), r.Expr.Lean(), sep)
	}
	b.WriteString("]⟩\n")
	return b.String()
}

// ---------------- (a) the Go table ----------------

func fieldMap(cl *ast.CompositeLit) map[string]ast.Expr {
	m := map[string]ast.Expr{}
	for _, el := range cl.Elts {
		if kv, ok := el.(*ast.KeyValueExpr); ok {
			if id, ok := kv.Key.(*ast.Ident); ok {
				m[id.Name] = kv.Value
			}
		}
	}
	return m
}

func strLit(e ast.Expr) string {
	bl, ok := e.(*ast.BasicLit)
	if !ok || bl.Kind != token.STRING {
		panic(fmt.Sprintf("expected string literal, got %T", e))
	}
	s, err := strconv.Unquote(bl.Value)
	if err != nil {
		panic(err)
	}
	return s
}

func runeList(e ast.Expr) []rune {
	cl := e.(*ast.CompositeLit)
	var rs []rune
	for _, el := range cl.Elts {
		bl := el.(*ast.BasicLit)
		r, _, _, err := strconv.UnquoteChar(bl.Value[1:len(bl.Value)-1], '\'')
		if err != nil {
			panic(err)
		}
		rs = append(rs, r)
	}
	return rs
}

func boolLit(e ast.Expr) bool { return e != nil && e.(*ast.Ident).Name == "true" }

func exprList(e ast.Expr) []*PE {
	var acc []*PE
	for _, el := range e.(*ast.CompositeLit).Elts {
		acc = append(acc, goExpr(el))
	}
	return acc
}

func goExpr(e ast.Expr) *PE {
	u, ok := e.(*ast.UnaryExpr)
	if !ok {
		panic(fmt.Sprintf("unexpected grammar expr %T", e))
	}
	cl := u.X.(*ast.CompositeLit)
	typ := cl.Type.(*ast.Ident).Name
	f := fieldMap(cl)
	switch typ {
	case "actionExpr":
		// run: (*parser).callonX
		sel := f["run"].(*ast.SelectorExpr)
		name := strings.TrimPrefix(sel.Sel.Name, "callon")
		return &PE{Kind: "action", Str: name, Kids: []*PE{goExpr(f["expr"])}}
	case "seqExpr":
		return &PE{Kind: "seq", Kids: exprList(f["exprs"])}
	case "choiceExpr":
		return &PE{Kind: "choice", Kids: exprList(f["alternatives"])}
	case "labeledExpr":
		return &PE{Kind: "label", Str: strLit(f["label"]), Kids: []*PE{goExpr(f["expr"])}}
	case "ruleRefExpr":
		return &PE{Kind: "ref", Str: strLit(f["name"])}
	case "zeroOrMoreExpr":
		return &PE{Kind: "star", Kids: []*PE{goExpr(f["expr"])}}
	case "oneOrMoreExpr":
		return &PE{Kind: "plus", Kids: []*PE{goExpr(f["expr"])}}
	case "zeroOrOneExpr":
		return &PE{Kind: "opt", Kids: []*PE{goExpr(f["expr"])}}
	case "notExpr":
		return &PE{Kind: "notp", Kids: []*PE{goExpr(f["expr"])}}
	case "andExpr":
		return &PE{Kind: "andp", Kids: []*PE{goExpr(f["expr"])}}
	case "anyMatcher":
		return &PE{Kind: "any"}
	case "litMatcher":
		if boolLit(f["ignoreCase"]) {
			panic("ignoreCase literal not supported by the model")
		}
		return &PE{Kind: "lit", Str: strLit(f["val"])}
	case "charClassMatcher":
		if boolLit(f["ignoreCase"]) {
			panic("ignoreCase class not supported by the model")
		}
		if _, has := f["classes"]; has {
			panic("unicode classes not supported by the model")
		}
		pe := &PE{Kind: "cls", Inv: boolLit(f["inverted"])}
		if c, ok := f["chars"]; ok {
			pe.Chars = runeList(c)
		}
		if r, ok := f["ranges"]; ok {
			pe.Ranges = runeList(r)
		}
		return pe
	}
	panic("unsupported grammar node " + typ)
}

func extractGoGrammar(file string) []PRule {
	fset := token.NewFileSet()
	f, err := parser.ParseFile(fset, file, nil, 0)
	if err != nil {
		panic(err)
	}
	var rules []PRule
	for _, d := range f.Decls {
		gd, ok := d.(*ast.GenDecl)
		if !ok || gd.Tok != token.VAR {
			continue
		}
		for _, sp := range gd.Specs {
			vs := sp.(*ast.ValueSpec)
			if len(vs.Names) != 1 || vs.Names[0].Name != "g" || len(vs.Values) != 1 {
				continue
			}
			gl := vs.Values[0].(*ast.UnaryExpr).X.(*ast.CompositeLit)
			rl := fieldMap(gl)["rules"].(*ast.CompositeLit)
			for _, el := range rl.Elts {
				rf := fieldMap(el.(*ast.CompositeLit))
				rules = append(rules, PRule{Name: strLit(rf["name"]), Expr: goExpr(rf["expr"])})
			}
		}
	}
	if len(rules) == 0 {
		panic("grammar table `g` not found in " + file)
	}
	return rules
}

// ---------------- (b) the .peg file ----------------

type pegParser struct {
	s    []rune
	i    int
	rule string
	n    int // pigeon numbers every expression of a rule in pre-order; actions are named <Rule><n>
}

func (p *pegParser) ws() {
	for p.i < len(p.s) {
		c := p.s[p.i]
		if c == ' ' || c == '\t' || c == '\n' || c == '\r' {
			p.i++
		} else if c == '/' && p.i+1 < len(p.s) && p.s[p.i+1] == '/' {
			for p.i < len(p.s) && p.s[p.i] != '\n' {
				p.i++
			}
		} else {
			break
		}
	}
}

func (p *pegParser) peekStr(t string) bool {
	return strings.HasPrefix(string(p.s[p.i:min(len(p.s), p.i+len(t)+4)]), t)
}

func min(a, b int) int {
	if a < b {
		return a
	}
	return b
}

func isIdent(c rune, first bool) bool {
	return c == '_' || (c >= 'a' && c <= 'z') || (c >= 'A' && c <= 'Z') || (!first && c >= '0' && c <= '9')
}

func (p *pegParser) ident() string {
	st := p.i
	for p.i < len(p.s) && isIdent(p.s[p.i], p.i == st) {
		p.i++
	}
	return string(p.s[st:p.i])
}

func (p *pegParser) codeBlock() {
	depth := 0
	for p.i < len(p.s) {
		c := p.s[p.i]
		p.i++
		if c == '{' {
			depth++
		} else if c == '}' {
			depth--
			if depth == 0 {
				return
			}
		}
	}
	panic("unterminated code block")
}

func (p *pegParser) stringLit() string {
	q := p.s[p.i]
	st := p.i
	p.i++
	for p.s[p.i] != q {
		if p.s[p.i] == '\\' {
			p.i++
		}
		p.i++
	}
	p.i++
	raw := string(p.s[st:p.i])
	if q == '"' {
		v, err := strconv.Unquote(raw)
		if err != nil {
			panic(err)
		}
		return v
	}
	return raw[1 : len(raw)-1]
}

// startsRule: at an identifier that begins a new rule (Name DisplayName? "<-")
func (p *pegParser) startsRule() bool {
	save := p.i
	defer func() { p.i = save }()
	if p.i >= len(p.s) || !isIdent(p.s[p.i], true) {
		return false
	}
	p.ident()
	p.ws()
	if p.i < len(p.s) && p.s[p.i] == '"' {
		p.stringLit()
		p.ws()
	}
	return p.peekStr("<-")
}

func (p *pegParser) next() int { p.n++; return p.n }

func (p *pegParser) choice() *PE {
	// numbering: a choice node takes its number before its alternatives; a single alternative is not a choice
	save, saveN := p.i, p.n
	_ = save
	first := p.seqTry()
	p.ws()
	if p.i < len(p.s) && p.s[p.i] == '/' && !(p.i+1 < len(p.s) && p.s[p.i+1] == '/') {
		// re-parse with the choice numbered first
		p.i, p.n = save, saveN
		p.next()
		alts := []*PE{p.seqTry()}
		for {
			p.ws()
			if p.i < len(p.s) && p.s[p.i] == '/' {
				p.i++
				p.ws()
				alts = append(alts, p.seqTry())
			} else {
				break
			}
		}
		return &PE{Kind: "choice", Kids: alts}
	}
	return first
}

// seqTry parses Labeled+ CodeBlock?; numbering: action, then seq, then items
func (p *pegParser) seqTry() *PE {
	save, saveN := p.i, p.n
	items, hasCode := p.seqItems(false, false)
	if !hasCode && len(items) == 1 {
		return items[0]
	}
	// re-parse with the proper pre-order numbering
	p.i, p.n = save, saveN
	actionNo := 0
	if hasCode {
		actionNo = p.next()
	}
	items, _ = p.seqItems(true, len(items) > 1)
	var body *PE
	if len(items) == 1 {
		body = items[0]
	} else {
		body = &PE{Kind: "seq", Kids: items}
	}
	if hasCode {
		return &PE{Kind: "action", Str: fmt.Sprintf("%s%d", p.rule, actionNo), Kids: []*PE{body}}
	}
	return body
}

func (p *pegParser) seqItems(final bool, isSeq bool) ([]*PE, bool) {
	if final && isSeq {
		p.next()
	}
	var items []*PE
	for {
		p.ws()
		if p.i >= len(p.s) {
			break
		}
		c := p.s[p.i]
		if c == '{' {
			p.codeBlock()
			return items, true
		}
		if c == '/' || c == ')' || p.startsRule() {
			break
		}
		items = append(items, p.labeled())
	}
	return items, false
}

func (p *pegParser) labeled() *PE {
	save := p.i
	if isIdent(p.s[p.i], true) {
		id := p.ident()
		p.ws()
		if p.i < len(p.s) && p.s[p.i] == ':' {
			p.i++
			p.ws()
			p.next()
			return &PE{Kind: "label", Str: id, Kids: []*PE{p.prefixed()}}
		}
	}
	p.i = save
	return p.prefixed()
}

func (p *pegParser) prefixed() *PE {
	c := p.s[p.i]
	if c == '!' || c == '&' {
		p.i++
		p.ws()
		p.next()
		k := "notp"
		if c == '&' {
			k = "andp"
		}
		return &PE{Kind: k, Kids: []*PE{p.suffixed()}}
	}
	return p.suffixed()
}

func (p *pegParser) suffixed() *PE {
	// look ahead for the suffix to number the wrapper before the primary
	save, saveN := p.i, p.n
	p.primary()
	p.ws()
	var kind string
	if p.i < len(p.s) {
		switch p.s[p.i] {
		case '*':
			kind = "star"
		case '+':
			kind = "plus"
		case '?':
			kind = "opt"
		}
	}
	p.i, p.n = save, saveN
	if kind != "" {
		p.next()
	}
	prim := p.primary()
	p.ws()
	if kind != "" {
		p.i++
		return &PE{Kind: kind, Kids: []*PE{prim}}
	}
	return prim
}

func (p *pegParser) primary() *PE {
	c := p.s[p.i]
	switch {
	case c == '"' || c == '\'':
		p.next()
		return &PE{Kind: "lit", Str: p.stringLit()}
	case c == '[':
		p.next()
		return p.charClass()
	case c == '.':
		p.next()
		p.i++
		return &PE{Kind: "any"}
	case c == '(':
		p.i++
		p.ws()
		e := p.choice()
		p.ws()
		if p.s[p.i] != ')' {
			panic("expected )")
		}
		p.i++
		return e
	case isIdent(c, true):
		p.next()
		return &PE{Kind: "ref", Str: p.ident()}
	}
	panic(fmt.Sprintf("unexpected %q at %d in .peg", string(c), p.i))
}

func (p *pegParser) charClass() *PE {
	p.i++ // [
	pe := &PE{Kind: "cls"}
	if p.s[p.i] == '^' {
		pe.Inv = true
		p.i++
	}
	var items []rune
	var esc []bool
	for p.s[p.i] != ']' {
		c := p.s[p.i]
		e := false
		if c == '\\' {
			p.i++
			e = true
			switch p.s[p.i] {
			case 'n':
				c = '\n'
			case 't':
				c = '\t'
			case 'r':
				c = '\r'
			default:
				c = p.s[p.i]
			}
		}
		items = append(items, c)
		esc = append(esc, e)
		p.i++
	}
	p.i++ // ]
	for k := 0; k < len(items); k++ {
		if k+2 < len(items) && items[k+1] == '-' && !esc[k+1] {
			pe.Ranges = append(pe.Ranges, items[k], items[k+2])
			k += 2
		} else {
			pe.Chars = append(pe.Chars, items[k])
		}
	}
	return pe
}

func extractPegFile(file string) []PRule {
	b, err := os.ReadFile(file)
	if err != nil {
		panic(err)
	}
	p := &pegParser{s: []rune(string(b))}
	p.ws()
	if p.s[p.i] == '{' {
		p.codeBlock()
	}
	var rules []PRule
	for {
		p.ws()
		if p.i >= len(p.s) {
			break
		}
		name := p.ident()
		if name == "" {
			panic(fmt.Sprintf("rule name expected at %d", p.i))
		}
		p.ws()
		if p.s[p.i] == '"' {
			p.stringLit()
			p.ws()
		}
		if !p.peekStr("<-") {
			panic("<- expected after " + name)
		}
		p.i += 2
		p.ws()
		p.rule, p.n = name, 0
		rules = append(rules, PRule{Name: name, Expr: p.choice()})
	}
	return rules
}

func writePathGrammar(repo, outDir string) {
	goRules := extractGoGrammar(repo + "/internal/parser/path/peg.go")
	pegRules := extractPegFile(repo + "/third_party/propertyparser.peg")
	var b strings.Builder
	b.WriteString("import Acv.Model.Peg\n/-! GENERATED by `acvh extract` from internal/parser/path/peg.go and third_party/propertyparser.peg — do not edit -/\nnamespace Acv.Gen\nopen Acv\n\n")
	b.WriteString(leanGrammar("pathGrammarGo", goRules))
	b.WriteString("\n")
	b.WriteString(leanGrammar("pathGrammarPeg", pegRules))
	b.WriteString("\nend Acv.Gen\n")
	if err := os.WriteFile(outDir+"/PathGrammar.lean", []byte(b.String()), 0644); err != nil {
		panic(err)
	}
}
