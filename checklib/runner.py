import argparse, json, os, re, subprocess, sys, time, shutil, hashlib

VERIF = os.path.abspath(os.path.join(os.path.dirname(os.path.abspath(__file__)), ".."))
REPO = os.environ.get("VERIF_REPO", "/repo")
BUILD = os.path.join(VERIF, ".build")
LEAN = os.path.join(VERIF, "lean")
HARNESS = os.path.join(VERIF, "harness")
ACVH = os.path.join(BUILD, "acvh")
DRIVER = os.path.join(LEAN, ".lake", "build", "bin", "acvdriver")
ALLOWED_AXIOMS = {"propext", "Classical.choice", "Quot.sound"}

GOENV = dict(os.environ, GOFLAGS="-mod=mod", GOPROXY="off", GOSUMDB="off", GOTOOLCHAIN="local",
             CGO_ENABLED=os.environ.get("CGO_ENABLED", "0"))


class Broken(Exception):
    """an obligation or the correspondence no longer checks"""
    def __init__(self, what, detail=""):
        super().__init__(what)
        self.what = what
        self.detail = detail


def sh(cmd, cwd=None, env=None, timeout=None, input=None):
    p = subprocess.run(cmd, cwd=cwd, env=env, capture_output=True, text=True, timeout=timeout, input=input)
    return p.returncode, p.stdout, p.stderr


def log(*a):
    print(*a, file=sys.stderr, flush=True)


# ---------------------------------------------------------------- build steps

def build_harness(race=False):
    os.makedirs(BUILD, exist_ok=True)
    shutil.copyfile(os.path.join(REPO, "go.sum"), os.path.join(HARNESS, "go.sum"))
    if REPO != "/repo":
        # a snapshot of the repository (vp run --with-repo): point the harness module at it
        sh(["go", "mod", "edit", "-replace=github.com/aml-org/amf-custom-validator=" + REPO], cwd=HARNESS, env=GOENV)
    out = ACVH + ("_race" if race else "")
    cmd = ["go", "build", "-tags", "verif", "-o", out]
    env = dict(GOENV)
    if race:
        cmd.insert(2, "-race")
        env["CGO_ENABLED"] = "1"
    cmd.append(".")
    rc, so, se = sh(cmd, cwd=HARNESS, env=env, timeout=1200)
    if rc != 0:
        raise Broken("harness-build", "go build of the harness against /repo failed:\n" + se[-4000:])
    return out


def build_cli():
    out = os.path.join(BUILD, "acv")
    rc, so, se = sh(["go", "build", "-o", out, "./cmd/main.go"], cwd=REPO, env=GOENV, timeout=1200)
    if rc != 0:
        raise Broken("cli-build", se[-4000:])
    return out


def run_extract():
    """regenerate Acv/Gen/*.lean and facts.json from /repo's current sources"""
    gen_dir = os.path.join(LEAN, "Acv", "Gen")
    os.makedirs(gen_dir, exist_ok=True)
    rc, so, se = sh([ACVH, "extract", REPO, gen_dir, os.path.join(BUILD, "facts.json")], timeout=600)
    if rc != 0:
        raise Broken("extract", "translator failed on /repo:\n" + (se or so)[-4000:])
    with open(os.path.join(BUILD, "facts.json")) as f:
        return json.load(f)


def lake_build(targets):
    rc, so, se = sh(["lake", "build"] + targets, cwd=LEAN, timeout=3600)
    if rc != 0:
        raise Broken("lake-build", (so + se)[-6000:])
    return so + se


SUSPECT = re.compile(r"\b(sorry|admit|native_decide|bv_decide|implemented_by)\b|^\s*axiom\s|unsafe\s|maxHeartbeats\s+0")


def strip_comments(src):
    src = re.sub(r"/-.*?-/", "", src, flags=re.S)
    return "\n".join(l.split("--")[0] for l in src.splitlines())


def audit_sources():
    bad = []
    for root, _, files in os.walk(os.path.join(LEAN, "Acv")):
        for fn in files:
            if fn.endswith(".lean"):
                p = os.path.join(root, fn)
                for i, l in enumerate(strip_comments(open(p).read()).splitlines(), 1):
                    if SUSPECT.search(l):
                        bad.append(f"{p}:{i}: {l.strip()}")
    if bad:
        raise Broken("source-audit", "\n".join(bad))


def audit_axioms(module, theorems):
    """#print axioms for every property theorem; returns {thm: [axioms]}"""
    os.makedirs(BUILD, exist_ok=True)
    path = os.path.join(BUILD, f"Audit_{module.replace('.', '_')}.lean")
    with open(path, "w") as f:
        mods = {module}
        for t in theorems:
            m = re.match(r"Acv\.(C\d+)\.", t)
            if m:
                mods.add("Acv.Props." + m.group(1))
        for m in sorted(mods):
            f.write(f"import {m}\n")
        for t in theorems:
            f.write(f"#print axioms {t}\n")
    rc, so, se = sh(["lake", "env", "lean", path], cwd=LEAN, timeout=1800)
    if rc != 0:
        raise Broken("axiom-audit", f"{module}: " + (so + se)[-4000:])
    res = {}
    for m in re.finditer(r"'([^']+)' depends on axioms: \[([^\]]*)\]", so):
        res[m.group(1)] = [a.strip() for a in m.group(2).split(",") if a.strip()]
    for m in re.finditer(r"'([^']+)' does not depend on any axioms", so):
        res[m.group(1)] = []
    for t in theorems:
        if t not in res:
            raise Broken("axiom-audit", f"theorem {t} not found in {module}")
        extra = set(res[t]) - ALLOWED_AXIOMS
        if extra:
            raise Broken("axiom-audit", f"{t} depends on {sorted(extra)}")
    return res


def leanchecker(modules):
    rc, so, se = sh(["lake", "env", "leanchecker"] + modules, cwd=LEAN, timeout=3600)
    if rc != 0:
        raise Broken("leanchecker", (so + se)[-4000:])


# ---------------------------------------------------------------- correspondence plumbing

def gen_cases(prop, n, seed, extra=()):
    rc, so, se = sh([ACVH, "gen", prop, str(n), str(seed)] + list(extra), timeout=1800)
    if rc != 0:
        raise Broken("gen", se[-2000:])
    return [l for l in so.split("\n") if l.strip()]


def run_lines(binary, lines, args=(), jobs=None, timeout=7200):
    """feed lines to `binary` in parallel chunks; returns one output line per input line.
    A process that dies (fatal error: stack overflow, out of memory, ...) answers `crash` for the line it died on;
    the lines after it are fed to a fresh process, so exactly the crashing inputs are identified."""
    jobs = jobs or min(16, max(1, len(lines) // 8)) or 1
    chunks = [lines[i::jobs] for i in range(jobs)]
    import threading
    outs = [None] * jobs

    def feed(i, ch):
        results = []
        rest = list(ch)
        while rest:
            p = subprocess.Popen([binary] + list(args), stdin=subprocess.PIPE, stdout=subprocess.PIPE,
                                 stderr=subprocess.PIPE, text=True)
            try:
                so, se = p.communicate("\n".join(rest) + "\n", timeout=timeout)
            except subprocess.TimeoutExpired:
                p.kill()
                so, se = p.communicate()
            ol = [l for l in so.split("\n") if l.strip()]
            if ol and ol[-1].strip() == '{"restart":true}':
                # the process asked for a fresh one after a call that did not return; nothing crashed
                ol = ol[:-1]
                results.extend(ol[:len(rest)])
                rest = rest[len(ol):]
                continue
            results.extend(ol[:len(rest)])
            if len(ol) >= len(rest):
                break
            # the process died while working on rest[len(ol)]
            results.append(json.dumps({"outcome": "crash", "result": "PANIC", "err": "process died: " + (se or "")[:300].replace("\n", " | ")}))
            rest = rest[len(ol) + 1:]
        outs[i] = results

    ths = [threading.Thread(target=feed, args=(i, ch)) for i, ch in enumerate(chunks)]
    for t in ths: t.start()
    for t in ths: t.join()
    res = [None] * len(lines)
    for i, ol in enumerate(outs):
        for k in range(len(chunks[i])):
            res[i + k * jobs] = ol[k]
    return res


RETAINED_ALERTS = []   # reports the library had returned and that changed after a later call (noticed by the harness, whatever the stream)


def run_impl(lines, **kw):
    out = [json.loads(l) for l in run_lines(ACVH, lines, args=("impl",), **kw)]
    for line, r in zip(lines, out):
        if isinstance(r, dict) and r.get("retainedChanged"):
            RETAINED_ALERTS.append((r["retainedChanged"], line))
    return out


def run_model(lines, **kw):
    return [json.loads(l) for l in run_lines(DRIVER, lines, **kw)]


# ---------------------------------------------------------------- findings / evidence

def load_known():
    p = os.path.join(VERIF, "known_findings.json")
    if not os.path.exists(p):
        return []
    return json.load(open(p)).get("findings", [])


class Ctx:
    def __init__(self, pid, tier, seed):
        self.pid, self.tier, self.seed = pid, tier, seed
        self.t0 = time.time()
        self.violations = []       # (signature, description, replay_path, found_input)
        self.breaks = []           # correspondence differences that are not by themselves property violations
        self.known_hits = []
        self.obligations = []      # (name, discharged: bool)
        self.coverage = {}
        self.samples = []
        self.assumptions = []
        self.known = [k for k in load_known() if k.get("property") == pid and k.get("status", "open") == "open"]

    def quick(self):
        return self.tier == "quick"

    def oblige(self, name, ok=True):
        self.obligations.append((name, ok))

    def replay_path(self, name):
        d = os.path.join(VERIF, "replays", self.pid)
        os.makedirs(d, exist_ok=True)
        return os.path.join(d, name)

    def violation(self, signature, description, payload, found_input=True):
        """payload: dict written as the replay file"""
        for k in self.known:
            if re.search(k["match"], signature):
                if k["id"] not in [h[0] for h in self.known_hits]:
                    self.known_hits.append((k["id"], k["what"]))
                return
        h = hashlib.sha1(signature.encode()).hexdigest()[:10]
        path = self.replay_path(f"{h}.json")
        payload = dict(payload, property=self.pid, signature=signature, description=description,
                       found_failing_input=found_input)
        with open(path, "w") as f:
            json.dump(payload, f, indent=1)
        self.violations.append((signature, description, path, found_input))

    def brk(self, signature, description, payload):
        """the model and the code disagree, but the observation does not itself contradict the property"""
        for k in self.known:
            if re.search(k["match"], signature):
                return
        self.breaks.append((signature, description, payload))

    def finish(self, level="proof", checker_cmd="", trusted=None, extra=None):
        for what, line in RETAINED_ALERTS[:3]:
            # a Go string the caller holds is immutable: the report no longer says what the library answered, whatever the property
            try:
                case = json.loads(line)
            except Exception:
                case = {"line": line[:2000]}
            self.violation("retained-report-changed", "a report the library had returned was changed behind the caller's back by a later call: " + what,
                           {"during_case": case, "what": what})
        if self.breaks and not self.violations:
            sig, desc, payload = self.breaks[0]
            self.violation("correspondence-broken:" + sig, f"correspondence no longer checks ({len(self.breaks)} case(s) differ); first: {desc}",
                           {"broken": "correspondence", "first_difference": payload, "other_differences": [d for _, d, _ in self.breaks[1:10]]},
                           found_input=False)
        elif self.breaks:
            log(f"  also: {len(self.breaks)} correspondence difference(s), first: {self.breaks[0][1][:200]}")
        for kid, what in self.known_hits:
            print(f"KNOWN-FINDING: property={self.pid} {what}")
        n_ob = len(self.obligations)
        n_ok = sum(1 for _, ok in self.obligations if ok)
        cov = {
            "obligations": n_ob,
            "discharged": n_ok,
            "checker_cmd": checker_cmd or f"cd /verif/lean && lake build Acv.Props.{self.pid} && lake env lean .build/Audit (see bin/check)",
            "trusted_base": trusted or [],
            "obligation_names": [n for n, _ in self.obligations],
            "samples": self.samples[:6] or [n for n, _ in self.obligations][:6],
        }
        cov.update(self.coverage)
        if extra:
            cov.update(extra)
        ev = {
            "property_id": self.pid, "tier": self.tier, "seed": self.seed, "level": level,
            "coverage": cov, "assumptions": self.assumptions,
            "wall_s": round(time.time() - self.t0, 2), "violations": len(self.violations),
            "known_findings_hit": [k for k, _ in self.known_hits],
        }
        # seeded-change experiments (bin/seedtest) write their evidence elsewhere: evidence/ only ever holds runs on the real tree
        evdir = os.environ.get("VERIF_EVIDENCE_DIR", os.path.join(VERIF, "evidence"))
        os.makedirs(evdir, exist_ok=True)
        with open(os.path.join(evdir, f"{self.pid}.json"), "w") as f:
            json.dump(ev, f, indent=1)
        seen = set()
        for sig, desc, path, found in self.violations:
            if path in seen:
                continue
            seen.add(path)
            tail = "" if found else " no-failing-input-found"
            log(f"  violation: {desc}")
            print(f"VIOLATION property={self.pid} replay={path}{tail}")
        sys.stdout.flush()
        return 1 if self.violations else 0


def main():
    ap = argparse.ArgumentParser()
    ap.add_argument("pid")
    ap.add_argument("--tier", default=os.environ.get("VERIF_TIER", "quick"))
    ap.add_argument("--replay")
    a = ap.parse_args()
    seed = int(os.environ.get("VERIF_SEED", "1"))
    # one check at a time per copy of /verif: the checks share the built harness, the regenerated Lean files and the lake build
    # directory, so a second check started on the same copy waits for the first (copies elsewhere have locks of their own)
    import fcntl
    os.makedirs(BUILD, exist_ok=True)
    _lock = open(os.path.join(BUILD, "lock"), "w")
    fcntl.flock(_lock, fcntl.LOCK_EX)
    import props
    if a.pid == "setup":
        props.setup()
        return
    os.environ["ACVH_TIER"] = a.tier   # the harness scales its per-call deadlines with the tier
    ctx = Ctx(a.pid, a.tier, seed)
    fn = getattr(props, "check_" + a.pid, None)
    if fn is None:
        log("unknown property", a.pid)
        sys.exit(2)
    if a.replay:
        sys.exit(props.replay(ctx, a.replay))
    sys.exit(fn(ctx))
