HOOK_COMMITS = ["345b098", "e796886", "a208908", "9106f22"]
NOTES = ("Every check rebuilds the harness from /repo's working tree (go build -tags verif), regenerates the extracted "
         "tables, rebuilds and audits the Lean theorems (no sorry/axioms beyond propext, Classical.choice, Quot.sound), "
         "then runs the correspondence between the Lean model driver and the real code. See DESIGN.md.")
NOT_APPLICABLE = {}
CHECKS = {
 "C07": {
  "text": "Over tables REGENERATED every run (the letter list, the plural format, the linked engine's keyword table) Lean proves for ALL indices: variable names pairwise distinct, never a keyword, their plurals never a keyword nor a variable name; generated identifiers gen_<hint>_<n> are injective in n for all hints; the package name is a valid identifier for every profile name; clause bindings are distinct (C02.bindings_distinct). The scaling matrix (every constraint kind x 8 path shapes, width to 40/60 quantified constraints, nesting depth to 8 (thorough 10: the engine's compile time grows about 3.7x per level), up to 100 validations, random formulas, messages with 0..6 placeholders incl. repeated ones, odd profile names) must compile.",
  "note": "Partial: that the engine accepts the rest of the emitted code (safety, typing) is not modelled; the matrix is the search for a failing profile. Trusted: Lean kernel; table extractors.",
  "technique": "Lean 4 proof over regenerated identifier/keyword tables (unbounded in the index) + scaling compile matrix as search",
  "ref": "DESIGN.md 7/C07",
 },
 "C15": {
  "text": "Lean proves expand_rename (an IRI written with any prefix bound to the same namespace expands identically), expand_total_on_grammar (the expander accepts every IRI the path grammar accepts - tied to the regenerated grammar table), and reuses the order-independence theorems (C01 operand order and spelling independence, C03 level membership, C06 insertion order, C07 distinct variables). Tied by meaning-preserving rewrites of random profiles: all mappings/lists shuffled, conjunctions merged into one map, block/flow style, quoting, comments, indentation, renamed and mixed prefixes - same results as the canonical spelling and as the model. The profile parser itself (internal/parser/profile: Yaml.Get, ParseExpression/ParseConstraint, levels, prefixes, variable numbering, negation push-down) is modelled in Lean over yaml.v3's node tree (Acv/Model/ProfileParser.lean) with theorems validation_key_order (permuting the keys of any mapping of a validation, at any depth, parses to the same rule), get_perm, precedence_* (which key wins when several expression keys are present), variables_fresh, negate_negate, undefined_names_skipped; that model is tied to the real parser's structural dump on fixtures, generated, mutated, conflicting-key and hostile profiles.",
  "note": "Partial: YAML surface syntax is yaml.v3's job: modelled as 'same node tree', tied only by the metamorphic runs.",
  "technique": "Lean 4 proof (IRI expander model; profile-parser model with key-order/precedence/fresh-variable theorems; corollaries of C01/C03/C06/C07) + differential correspondence of the parser model with the real parser + metamorphic correspondence over YAML rewrites",
  "ref": "DESIGN.md 7/C15",
 },
 "C05": {
  "text": "Lean theorem norm_ser: for every graph and every serialisation plan (node and key order, bare value vs one-element array, @type string vs array, {@value} vs scalar, repeated values and classes, nodes embedded to any depth carrying any subset of their triples, nodes split over several occurrences, top-level array / @graph / single object) the normalisation model yields an index set-equal to the graph's canonical index; norm_ser_ctx extends it to documents with an @context: every IRI occurrence independently written in full, as prefix:suffix for a declared prefix, relative to @base (ids) or to @vocab (keys, classes) - expand_spelling proves that expansion undoes every such spelling under explicit decidable side conditions on the context (each with a concrete counterexample, e.g. a prefix named `urn`); corollaries renderings_agree / reserialisation_invariant(_ctx), equiv_targets and reserialisation_same_reads (every target_class / find / property read of the policy sees the same set for any two documents of the same graph, with or without contexts). The model (normC) is tied to the real Index(Normalize(.)) on every generated serialisation, context-free or not; verdict equality is checked metamorphically on top.",
  "note": "Partial: json-gold outside the modelled fragment (@list, @language, typed literals, @reverse, blank nodes, scoped / array / remote contexts, expanded term definitions) is not modelled; Go's url.Parse is modelled conservatively (three-valued goAbs), tied only differentially. Trusted: Lean kernel; the JSON-to-Js conversion in the driver.",
  "technique": "Lean 4 proof (mutual structural induction over serialisation plans; set reasoning on extracted triples; IRI expansion inverts compaction) + differential and metamorphic correspondence with json-gold based normalisation",
  "ref": "DESIGN.md 7/C05",
 },
 "C06": {
  "text": "Lean proves that each remaining iteration over a Go map is order-insensitive: inserting the entries of a map with distinct keys in any permutation yields the same lookups (insertAll_perm, iriContext_perm), and permuting the fields of any object anywhere in a report tree permutes - and does not change - the ids assigned (assignIds_perm); the inventory of range-over-map sites and go statements is regenerated with go/packages and pinned (sites_expected, no_go_statements); the old GetMapKeys order is shown to leak (old_order_leaks). Search: generated code and fixed-clock reports hashed in N fresh processes (fixed and permuted histories, conflicting prefix bindings) must coincide; 2..64 concurrent goroutines mixing all entry points must return byte for byte what the serial calls returned.",
  "note": "Partial: determinism inside OPA, json-gold, yaml.v3 and encoding/json is observed only. Trusted: Lean kernel; the go/packages inventory extractor.",
  "technique": "Lean 4 proof (permutation invariance lemmas) over a regenerated inventory of map iterations + fresh-process and concurrent-vs-serial byte comparison as search",
  "ref": "DESIGN.md 7/C06",
 },
 "C08": {
  "text": "Regenerated every run from the sources and from the LINKED engine: the deny-list, the engine's built-in table, and every call into the engine's API. Lean proves forbidden is a subset of the deny-list, the deny-list names exist in the engine, there is one compile site and it passes the deny-list, and on a term model a denied call - or a `with f as op` binding of a denied operator that is never called by name - is found at any depth. The matrix compiles a profile for every built-in x 20 embedding positions x 4 call syntaxes x debug flag: rejected-as-unsafe iff on the deny-list, forbidden ones rejected everywhere - also when the module has a second defect (keywords used as names, syntax or type errors, unknown functions) - and nothing is evaluated.",
  "note": "Trusted: Lean kernel; OPA's capability check itself (modelled, tied by the exhaustive matrix in the thorough tier); extractor.",
  "technique": "Lean 4 proofs over regenerated tables (decide) and a term-level induction + exhaustive compile matrix against the linked engine",
  "ref": "DESIGN.md 7/C08",
 },
 "C10": {
  "text": "Lean proves for every schedule of any number of threads that the atomic counter issues pairwise distinct numbers (so no two names in one module coincide), exhibits explicit colliding schedules for the pre-repair load/store counter, and shows sequential schedules could never see it; the inventory of package-level variables, of every write/address-taking of them and of go statements is regenerated with go/packages and pinned. Search: -race build, mixed concurrent entry points sharing one compiled profile, parallel results compared with serial ones.",
  "note": "Partial: the interleaving model cannot exhibit torn reads or races inside OPA/json-gold/the Go runtime; those are only searched with the race detector.",
  "technique": "Lean 4 proof by induction on the schedule + regenerated shared-state inventory + race-detector stress as search",
  "ref": "DESIGN.md 7/C10",
 },
 "C12": {
  "text": "Lean proves for every report tree satisfying a decidable shape predicate WF (keys distinct, no `_`, not numeric, at most one array of typed children per typed node) that the ids assigned by the model of defineIdRecursively are pairwise distinct, injectively joined with `_`, distinct across levels and from the three fixed ids (report_ids_unique, document_ids_nodup), and that WF is necessary (collision_without_wf). A trace model (Acv/Model/Trace.lean) gives every result the traces the policy builds - one entry per literal of the firing failure branch, sub-results per failing reached node - with theorems branches_have_literals (a Proper rule never yields an empty branch, at any nesting depth), results_complete (every result has a focus node of the graph that is an instance of the target class, the validation's name, a non-empty trace whose entries each carry a non-empty component and path, recursively for sub-results) and results_iff_reported (a node has a result iff it is a target failing the formula). Every real report produced from nested/quantified profiles is compared with the trace model (results, components, paths, sub-result multisets) and converted to the model tree: WF is decided on it, its ids must equal the model's, and groundedness/completeness of every result and sub-result is checked.",
  "note": "Trusted: Lean kernel; the conversion of the report JSON to the tree type; the shape hypothesis is checked per real report (decidably), not proved for all reports the policy can produce.",
  "technique": "Lean 4 proof (mutual induction over the report tree, string-level injectivity; trace model over the translator's failure branches) + per-report decidable hypothesis check, id correspondence and trace correspondence",
  "ref": "DESIGN.md 7/C12",
 },
 "C13": {
  "text": "Lean proves lex(quote s) = s for every string (every Char: quotes, backslashes, controls, U+2028/9, the byte-order mark, astral), that the literal ends exactly at its closing quote whatever follows, that sprintf over %-escaped segments renders exactly the interleaving, and (C13Message) that the whole message pipeline renders the specification. Tied by comparing the real RegoString and ParseMessageExpression with the model on hostile strings, the engine's own lexer reading literals back, and end-to-end profileName / sourceShapeName / resultMessage / list matching.",
  "note": "Trusted: Lean kernel; OPA's string lexer and sprintf restricted to %% and %v (modelled, tied differentially); yaml.v3. Covered paste sites: profile name, validation name, message, message variable path, in/containsAll/containsSome values, pattern. IRIs derived from prefix declarations are not covered.",
  "technique": "Lean 4 proof by induction on the string (quoting round trip, printf escaping) + differential correspondence with hostile strings",
  "ref": "DESIGN.md 7/C13",
 },
 "C14": {
  "text": "Lean proves that the first four digit runs of a range string `[(a,b)-(c,d)]` are exactly a,b,c,d for all naturals (digitRuns_range, parseRange_fmtRange, readNat_showNat), and on the lexical-index model: a node is indexed iff a lexical entry's element is its id, property-level entries index nothing, the file is the (last) additional location listing the node else the root location, no source maps means no location, and the location carries exactly the recorded numbers. Tied by generated graphs with node-level/property-level/no entries, 0..3 source files, magnitudes up to 30 digits, and a source-map-free twin.",
  "note": "Trusted: Lean kernel; regex.find_n / to_number of the engine (modelled by digitRuns/readNat); json-gold on the generated flat documents.",
  "technique": "Lean 4 proof (induction on decimal digits; list reasoning on the index model) + differential correspondence on report locations",
  "ref": "DESIGN.md 7/C14",
 },
 "C16": {
  "text": "The grammar table of the generated parser (peg.go) and the documented grammar (propertyparser.peg) are both translated into Lean on every run and proved equal (doc_eq_table); for any grammar ending in the EOF rule an accepted string is consumed entirely (accepts_whole + table_endsWithEOF); every well-formed path AST round-trips through rendering and parsing in canonical and in arbitrary optional whitespace (render_parse, ws_insensitive); the pre-repair grammar truncates (old_truncates). The generic PEG interpreter + hand-modelled semantic actions are tied to the real parser by comparing accept/reject and structure on sentences in whitespace/parenthesis variants and all their single-edit mutations.",
  "note": "Trusted: Lean kernel; the two grammar translators; the generic PEG interpreter as a model of the pigeon runtime and the hand-modelled actions (tied by the correspondence).",
  "technique": "Lean 4 proof over a PEG interpreter applied to the regenerated grammar table + exhaustive-mutation differential correspondence with the real parser",
  "ref": "DESIGN.md 7/C16",
 },
 "C03": {
  "text": "Lean theorems over a model of level resolution -> Rego level sets -> BuildReport: severity_is_level (a result carries severity S iff its validation is listed under S, defined and firing), conforms_iff, warnings_dont_affect_conforms, result_key_iff_nonempty, profileName_eq, dateCreated_iff, config_only_touches, undefined_skipped; for all profiles, firing relations and configurations. Tied to the code by random level distributions (duplicates, empty/absent levels, undefined names, names/profile names equal to language keys) x graphs x report configurations through all four validating entry points (explicit configuration and clock; default configuration and wall clock), debug flag on and off, profile names over a hostile alphabet (BMP and astral).",
  "note": "Trusted: Lean kernel; the model of parseValidationLevel/rule heads/report[level]/BuildReport; OPA set semantics (duplicates collapse).",
  "technique": "Lean 4 proof over the report model + differential correspondence on report headers",
  "ref": "DESIGN.md 7/C03",
 },
 "C18": {
  "text": "Lean proves write_exact (with the open flags found in the source, any prior file state ends as exactly the report), stdout_exact, failure_no_stdout, and stale_tail for the flag set of 21a97f4; the flags and print calls are facts regenerated from cmd/ every run. Tied by running the built acv binary over prior file states x subcommands x good/bad inputs, data whose spelling a re-encoder would change (number literals, escapes) and operational faults (missing files, missing arguments, output path in a missing directory) against the library output computed in-process.",
  "note": "Trusted: Lean kernel; os.OpenFile/Create/WriteString semantics as modelled; the read-only prior state exists only in the model (root in the sandbox).",
  "technique": "Lean 4 proof over a file-state model with regenerated flag facts + differential runs of the built CLI",
  "ref": "DESIGN.md 7/C18",
 },
 "C04": {
  "text": "On the control-flow skeleton REGENERATED from the Go sources (pkg/*.go, internal/validator/*.go) every run, Lean proves by kernel evaluation over every outcome of every external step that no validating entry point returns a report when decoding, JSON-LD flattening or indexing fails (data_failure_is_never_a_report, report_only_after_all_stages), and that the 21a97f4 shape (decode error swallowed) would. The skeleton is tied to the code by real runs of a malformed-data corpus through all entry points.",
  "note": "Trusted: Lean kernel; the skeleton translator (extract_pipeline.go; unreadable statements become `opaque` and break theorem no_opaque); which documents encoding/json and json-gold reject is observed (differential), not proved.",
  "technique": "Lean 4 kernel-evaluated theorems over a regenerated control-flow skeleton (all fault assignments) + fault-injection correspondence with the real entry points",
  "ref": "DESIGN.md 7/C04",
 },
 "C09": {
  "text": "Lean proves on the regenerated skeleton that Validate = ProcessProfile ; ValidateCompiled for every outcome of every external step (validate_is_compile_then_validateCompiled), that the pkg entry points are thin wrappers, and - for an engine whose Eval is a pure function of (compiled profile, document) - that any history of documents yields at each position the fresh result (history_independent). Tied by histories (repeats, failing and malformed documents, lexical documents, OTHER profiles with conflicting prefix bindings validated in between) through one PreparedEvalQuery compared byte for byte with fresh validations.",
  "note": "Partial: purity/freshness of OPA's PreparedEvalQuery.Eval is the hypothesis of the history theorem and is only observed, not proved. Trusted: Lean kernel, skeleton translator.",
  "technique": "Lean 4 proof (induction on the history; kernel evaluation over the regenerated skeleton) + history correspondence against fresh validations",
  "ref": "DESIGN.md 7/C09",
 },
 "C11": {
  "text": "On the regenerated skeleton, for every validating entry point and every outcome (ok/error/panic) of every external step, Lean proves: events are a prefix of the stage order, well bracketed, no overlap; the channel is closed exactly once and last whenever the call returns; CompileProfile closes on error only; compile-then-validate closes once; the milestone fold (regenerated from pkg/milestones) yields one milestone per completed stage pairing each completion with an earlier start. Two extracted facts pin what `emit` and `close` stand for (emit_is_blocking_send, close_is_plain_close: the bodies of dispatchEvent and CloseEventChan). Tied by real runs with a consumer goroutine for every failing stage x entry point, incl. slow consumers on unbuffered and small channels.",
  "note": "Trusted: Lean kernel; skeleton translator; Go channel semantics. Assumes all sends/closes go through dispatchEvent/CloseEventChan inside the translated functions (the correspondence observes the real channel).",
  "technique": "Lean 4 kernel-evaluated theorems over all fault sequences of a regenerated skeleton + fault-injection correspondence with a real event channel",
  "ref": "DESIGN.md 7/C11",
 },
 "C17": {
  "text": "On the regenerated skeleton with three outcomes per external step Lean proves every entry point returns report-or-error whenever the steps outside the recover guard do not panic, that the guards (GenerateRego: parser and generator; NormalizeOrError: the JSON-LD processor) convert panics into errors, and that without a guard a panic escapes. The search side runs hostile hand-written inputs, IRI references no URL parser accepts at every IRI position, EVERY 1-byte input and every 2-byte input over the bytes special to YAML/JSON (base64 transport), mutations of all fixtures and raw bytes through all five entry points under recover() with a timeout.",
  "note": "Partial: panic-freedom inside yaml.v3, OPA, encoding/json and of the indexer/report builder, and termination everywhere, are hypotheses of total_under_guard; they are only searched (fuzz), not proved. Stack exhaustion/OOM are outside the model.",
  "technique": "Lean 4 kernel-evaluated theorems over a regenerated skeleton (ok/err/panic per step) + structured fuzzing as the search for a failing input",
  "ref": "DESIGN.md 7/C17",
 },
 "C01": {
  "text": "Lean theorem compile_correct: for every rule tree (and/or/not/if/then/else/nested/atLeast/atMost/exactly of any depth and width) and every environment in which each atom's negated twin is its complement, the failure-DNF produced by the transliterated dispatch/genAnd/genOr/expandBranches fires exactly where the formula is classically false; corollaries: operand order, flattening, double negation, De Morgan, contraposition, if/then/else as two implications, target selection (reported_iff), cardinality atoms classical on every graph (graphEnv_classical). Tied to the Go translator by whole-truth-table validations of random formulas through the real pkg.Validate, plus random-graph streams for nested/quantified rules, scopes (several quantified constraints in every pair of connective contexts) and every atom kind. The front-end is linked in Lean end to end (Acv/Model/FrontEnd.lean): YAML node tree -> profile-parser model -> path PEG model -> IRI expander model -> rule tables (toRule), with a readable specification `sat` of what a parsed rule means on a graph; sat_iff_holds, frontEnd_sound and tree_reported_iff prove that the translator model reports node n for validation v of the profile TREE iff n is an instance of v's target class and not sat; toRule_negate (negation push-down commutes), frontEnd_key_order / verdicts_key_order (key order of any mapping does not change the verdicts on any graph). Every stream is run a second time with the model side starting from the YAML tree of the profile text.",
  "note": "Trusted: Lean kernel; the transliteration of the generator and of Negate(); OPA's evaluation of each per-constraint snippet (modelled by Atom.fails, tied by the atoms stream); yaml.v3; json-gold on flat documents. Hypotheses kept visible: Proper (no empty and/or body) and Classical (per-value atoms are complementary only on single-valued properties).",
  "technique": "Lean 4 proof by mutual functional induction over the well-founded translator model, composed with a proved front-end model from the YAML tree + differential correspondence (real pkg.Validate vs compiled Lean driver, from abstract cases and from the YAML tree) on truth-table graphs",
  "ref": "DESIGN.md 7/C01",
 },
 "C02": {
  "text": "Lean theorems (clauses_denote, count_is_card, alt_is_union, seq_is_composition, inverse_is_converse, bindings_distinct) prove for every path and every graph that the union of the traversal clauses the generator emits is the relational denotation of the path; the traversal model is tied to internal/generator/path.go by running real validations on random paths x graphs and comparing reached values, counts, reached nodes and - through a uniqueValues validation - the ARRAY of values (one entry per route) with the model. The first failing case of a run is minimised.",
  "note": "Trusted: Lean kernel; the hand-written transliteration of traverse*/aggregateResultsIntoSet; OPA's evaluation of nested_nodes/search_subjects/nodes_array (modelled by stepItems, tied only differentially); json-gold flattening of the generated flat documents.",
  "technique": "Lean 4 proof by mutual structural induction on the path + differential correspondence (real pkg.Validate vs compiled Lean driver)",
  "ref": "DESIGN.md 7/C02",
 },
}
