HOOK_COMMITS = ["345b098"]
NOTES = ("Every check rebuilds the harness from /repo's working tree (go build -tags verif), regenerates the extracted "
         "tables, rebuilds and audits the Lean theorems (no sorry/axioms beyond propext, Classical.choice, Quot.sound), "
         "then runs the correspondence between the Lean model driver and the real code. See DESIGN.md.")
NOT_APPLICABLE = {}
CHECKS = {
 "C01": {
  "text": "Lean theorem compile_correct: for every rule tree (and/or/not/if/then/else/nested/atLeast/atMost/exactly of any depth and width) and every environment in which each atom's negated twin is its complement, the failure-DNF produced by the transliterated dispatch/genAnd/genOr/expandBranches fires exactly where the formula is classically false; corollaries: operand order, flattening, double negation, De Morgan, contraposition, if/then/else as two implications, target selection (reported_iff), cardinality atoms classical on every graph (graphEnv_classical). Tied to the Go translator by whole-truth-table validations of random formulas through the real pkg.Validate, plus random-graph streams for nested/quantified rules and every atom kind.",
  "note": "Trusted: Lean kernel; the transliteration of the generator and of Negate(); OPA's evaluation of each per-constraint snippet (modelled by Atom.fails, tied by the atoms stream); yaml.v3; json-gold on flat documents. Hypotheses kept visible: Proper (no empty and/or body) and Classical (per-value atoms are complementary only on single-valued properties).",
  "technique": "Lean 4 proof by mutual functional induction over the well-founded translator model + differential correspondence (real pkg.Validate vs compiled Lean driver) on truth-table graphs",
  "ref": "DESIGN.md 7/C01",
 },
 "C02": {
  "text": "Lean theorems (clauses_denote, count_is_card, alt_is_union, seq_is_composition, inverse_is_converse, bindings_distinct) prove for every path and every graph that the union of the traversal clauses the generator emits is the relational denotation of the path; the traversal model is tied to internal/generator/path.go by running real validations on random paths x graphs and comparing reached values and counts with the model.",
  "note": "Trusted: Lean kernel; the hand-written transliteration of traverse*/aggregateResultsIntoSet; OPA's evaluation of nested_nodes/search_subjects/nodes_array (modelled by stepItems, tied only differentially); json-gold flattening of the generated flat documents.",
  "technique": "Lean 4 proof by mutual structural induction on the path + differential correspondence (real pkg.Validate vs compiled Lean driver)",
  "ref": "DESIGN.md 7/C02",
 },
}
