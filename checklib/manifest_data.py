HOOK_COMMITS = ["345b098"]
NOTES = ("Every check rebuilds the harness from /repo's working tree (go build -tags verif), regenerates the extracted "
         "tables, rebuilds and audits the Lean theorems (no sorry/axioms beyond propext, Classical.choice, Quot.sound), "
         "then runs the correspondence between the Lean model driver and the real code. See DESIGN.md.")
NOT_APPLICABLE = {}
CHECKS = {
 "C02": {
  "text": "Lean theorems (clauses_denote, count_is_card, alt_is_union, seq_is_composition, inverse_is_converse, bindings_distinct) prove for every path and every graph that the union of the traversal clauses the generator emits is the relational denotation of the path; the traversal model is tied to internal/generator/path.go by running real validations on random paths x graphs and comparing reached values and counts with the model.",
  "note": "Trusted: Lean kernel; the hand-written transliteration of traverse*/aggregateResultsIntoSet; OPA's evaluation of nested_nodes/search_subjects/nodes_array (modelled by stepItems, tied only differentially); json-gold flattening of the generated flat documents.",
  "technique": "Lean 4 proof by mutual structural induction on the path + differential correspondence (real pkg.Validate vs compiled Lean driver)",
  "ref": "DESIGN.md 7/C02",
 },
}
