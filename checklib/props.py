"""per-property checks"""
import json, os, re, subprocess, sys, time
from runner import *

TRUST_COMMON = [
    "Lean 4.33.0 kernel; axioms propext, Classical.choice, Quot.sound only",
    "harness translator/generators (/verif/harness, Go) and this orchestrator's comparison",
    "OPA v0.47 evaluation of the generated Rego, json-gold v0.4.0, yaml.v3, encoding/json: modelled, tied by differential runs only",
]


def setup():
    build_harness()
    try:
        run_extract()
    except Broken as b:
        log("extract:", b.what, b.detail)
    lake_build([])
    log("setup ok")


def prove(ctx, module, theorems, extra_targets=()):
    """build the property module and audit its theorems; returns list of Broken"""
    broken = []
    try:
        audit_sources()
        mods = {module}
        for t in theorems:
            mm = re.match(r"Acv\.(C\d+)\.", t)
            if mm:
                mods.add("Acv.Props." + mm.group(1))
        lake_build(sorted(mods) + ["acvdriver"] + list(extra_targets))
        ax = audit_axioms(module, theorems)
        for t in theorems:
            ctx.oblige(t, True)
        if not ctx.quick():
            leanchecker([module])
            ctx.oblige("leanchecker:" + module, True)
    except Broken as b:
        for t in theorems:
            if t not in [n for n, _ in ctx.obligations]:
                ctx.oblige(t, False)
        broken.append(b)
    return broken


def conclude(ctx, broken, **kw):
    """a broken obligation with no concrete failing input is still a violation"""
    if broken and not ctx.violations and not ctx.known_hits:
        for b in broken:
            ctx.violation("broken:" + b.what + ":" + b.detail[:200],
                          f"{b.what} no longer checks", {"broken": b.what, "detail": b.detail},
                          found_input=False)
    elif broken:
        for b in broken:
            log(f"  also broken: {b.what}: {b.detail[:300]}")
    return ctx.finish(**kw)


def corr(ctx, prop, n, compare, seed_offset=0, extra=(), label=None, transform=None):
    """generate n cases, run impl and model, compare(case, impl, model) -> None | (sig, desc)"""
    label = label or prop
    lines = gen_cases(prop, n, ctx.seed * 1000 + seed_offset, extra)
    if transform:
        lines = [transform(l) for l in lines]
    t0 = time.time()
    impl = run_impl(lines)
    t1 = time.time()
    model = run_model(lines)
    t2 = time.time()
    stats = {"cases": len(lines), "impl_s": round(t1 - t0, 1), "model_s": round(t2 - t1, 1)}
    distinct = set()
    nontrivial = 0
    for line, i, m in zip(lines, impl, model):
        case = json.loads(line)
        r = compare(case, i, m)
        key = json.dumps({k: v for k, v in case.items() if k not in ("id", "profile", "data")}, sort_keys=True)
        if key not in distinct:
            distinct.add(key)
            if r is not False and nontrivial_case(case, i, m):
                nontrivial += 1
        if r and r is not True:
            sig, desc = r
            if sig.startswith("~"):
                ctx.brk(f"{label}:{sig[1:]}", desc, {"case": case, "impl": i, "model": m})
            else:
                payload = {"case": case, "impl": i, "model": m}
                if case.get("op") in ("c01", "c02") and not getattr(ctx, "_minimised", False):
                    # shrink the first failing case of the run: smaller rule trees / paths / graphs with the same kind of failure
                    ctx._minimised = True
                    try:
                        import minimise
                        res = minimise.minimise(case, compare)
                        if res:
                            payload["minimised"] = {"case": res[0], "impl": res[1], "model": res[2], "evaluations": res[3]}
                            r2 = compare(res[0], res[1], res[2])
                            desc = desc + " | minimised: " + (r2[1] if r2 and r2 is not True else "")
                    except Exception as ex:
                        payload["minimiser_error"] = str(ex)
                ctx.violation(f"{label}:{sig}", desc, payload)
    ctx.coverage.setdefault("streams", {})[label] = dict(stats, distinct=len(distinct), nontrivial=nontrivial)
    ctx.coverage["evaluations"] = ctx.coverage.get("evaluations", 0) + len(lines)
    ctx.coverage["distinct_nontrivial"] = ctx.coverage.get("distinct_nontrivial", 0) + nontrivial
    if lines and len(ctx.samples) < 6:
        c = json.loads(lines[0])
        ctx.samples.append({"stream": label, "case": {k: c[k] for k in c if k not in ("graph", "data")},
                            "impl": impl[0], "model": model[0]})
    return lines, impl, model


def nontrivial_case(case, i, m):
    if case.get("op") == "c02":
        return len(m.get("values", [])) > 0
    if case.get("op") == "c01":
        return len(m.get("reported", [])) > 0
    return True


# ------------------------------------------------------------------ C02

C02_THEOREMS = ["Acv.C02.clauses_denote", "Acv.C02.count_is_card", "Acv.C02.alt_is_union",
                "Acv.C02.seq_is_composition", "Acv.C02.inverse_is_converse",
                "Acv.C02.bindings_distinct"]


def cmp_c02(case, i, m):
    if "error" in m:
        return ("~model-error", "model driver rejected the case: " + m["error"])
    if i.get("outcome") == "timeout":
        return False
    if i.get("outcome") != "ok":
        return ("impl-" + str(i.get("outcome")), f"path `{case['pathText']}`: real code gave {i.get('outcome')}: {str(i.get('err'))[:200]}")
    if m["values"] != m["implValues"] or m["count"] != m["implCount"]:
        return ("~model-self", "clauses model and denotation disagree (theorem clauses_denote contradicted?)")
    # blank-node labels are the processor's to choose: anonymous nodes are compared as anonymous
    anon = lambda vs: sorted("_:" if isinstance(v, str) and v.startswith("_:") else v for v in vs)
    i, m = dict(i, values=anon(i["values"])), dict(m, values=anon(m["values"]))
    if i["values"] != m["values"]:
        return ("values", f"path `{case['pathText']}` from {case['focus']}: code reaches {i['values']} but the denotation is {m['values']}")
    if i["count"] != m["count"]:
        return ("count", f"path `{case['pathText']}`: code counts {i['count']} values, denotation has {m['count']}")
    if not case.get("fetch"):
        for kind, got in (i.get("counts") or {}).items():
            if got != m["count"]:
                return ("count-" + kind, f"path `{case['pathText']}`: the {'exactCount' if kind == 'exact' else 'minCount'} constraint counts {got} values, the denotation has {m['count']} (a value reached by several routes is one value)")
        if m["count"] > 0 and "exact" not in (i.get("counts") or {}):
            return ("count-exact", f"path `{case['pathText']}`: exactCount 0 is not reported although the denotation has {m['count']} values")
    if not case.get("fetch") and "dup" in i and i["dup"] != m["dup"]:
        return ("array", f"path `{case['pathText']}` from {case['focus']}: uniqueValues {'reports' if i['dup'] else 'does not report'} the node, but the array of reached values (one entry per route, {m['routes']} entries) "
                         f"{'holds' if m['dup'] else 'does not hold'} a value twice: the array the constraint is applied to is not the path's denotation")
    return None


def check_C02(ctx):
    broken = []
    try:
        build_harness()
    except Broken as b:
        return conclude(ctx, [b])
    broken += prove(ctx, "Acv.Props.C02", C02_THEOREMS)
    try:
        n = 400 if ctx.quick() else 12000
        corr(ctx, "c02", n, cmp_c02)
        ctx.oblige("correspondence:c02 path values real-vs-model", not ctx.violations)
    except Broken as b:
        broken.append(b)
    ctx.coverage["rule"] = ("random paths of the documented grammar (depth<=4, / | ^ @type, parentheses) x random graphs "
                            "(2..7 nodes, links incl. cycles, shared children, dangling links, literals mid-path, anonymous nodes with blank-node labels on and at the end of the path); predicates also in the built-in `core` vocabulary (alias not declared), "
                            "in namespaces ending in neither # nor /, with percent-encoded characters, under a re-bound built-in alias; observers: set, array (uniqueValues), minCount and exactCount; a case is non-trivial when the path reaches >=1 value")
    ctx.assumptions += ["Rego evaluation of nested_nodes/search_subjects/nodes_array (OPA) is modelled by stepItems"]
    return conclude(ctx, broken, trusted=TRUST_COMMON)


# ------------------------------------------------------------------ C01

C01_THEOREMS = ["Acv.C01.compile_correct", "Acv.C01.dispatch_nonempty", "Acv.C01.spelling_independent",
                "Acv.C01.and_operand_order", "Acv.C01.or_operand_order", "Acv.C01.and_flatten", "Acv.C01.or_flatten",
                "Acv.C01.double_negation", "Acv.C01.de_morgan_and", "Acv.C01.de_morgan_or", "Acv.C01.contraposition",
                "Acv.C01.ite_as_implications", "Acv.C01.cond_as_or", "Acv.C01.nested_is_forall",
                "Acv.C01.atLeast_counts", "Acv.C01.atMost_counts", "Acv.C01.graphEnv_classical",
                "Acv.C01.reported_iff", "Acv.C01.old_negated_ite_wrong", "Acv.C01.improper_misjudged"]
C01_ATOM_THEOREMS = ["Acv.C01.in_classical", "Acv.C01.numeric_classical", "Acv.C01.datatype_classical", "Acv.C01.length_classical",
                     "Acv.C01.pattern_classical", "Acv.C01.containsAll_classical", "Acv.C01.containsSome_classical",
                     "Acv.C01.propCmp_classical", "Acv.C01.uniqueValues_classical", "Acv.C01.in_not_classical_on_two_values"]


def cmp_c01(case, i, m):
    if "error" in m:
        return ("~model-error", "model driver rejected the case: " + m["error"])
    if i.get("outcome") == "timeout":
        return False    # too slow to evaluate; not counted
    if i.get("outcome") != "ok":
        return ("impl-" + str(i.get("outcome")), f"declarative profile: real code gave {i.get('outcome')}: {str(i.get('err'))[:300]}")
    real = i["reported"]
    # the classical reading is the specification wherever the translator model agrees with it on this very case (per-value atoms
    # are classical on single-valued properties: C01Atoms), and in the streams that only use classical atoms
    classical = case["stream"] in ("tt", "graphcount", "scopes") or m["reported"] == m["implReported"]
    if classical and m["reported"] != m["implReported"]:
        return ("~model-self", "DNF model and classical meaning disagree on a classical case (compile_correct contradicted?)")
    if classical and real != m["reported"]:
        extra = sorted(set(real) - set(m["reported"]))[:4]
        missing = sorted(set(m["reported"]) - set(real))[:4]
        return ("verdict", f"{case['stream']}: reported set differs from 'target and not formula': wrongly reported {extra}, not reported {missing}")
    if real != m["implReported"]:
        extra = sorted(set(real) - set(m["implReported"]))[:4]
        missing = sorted(set(m["implReported"]) - set(real))[:4]
        return ("~correspondence", f"{case['stream']}: real verdicts differ from the translator model: only real {extra}, only model {missing}")
    return None


FRONTEND_THEOREMS = ["Acv.FrontEnd.toRule_negate", "Acv.FrontEnd.toRule_negate_parsed", "Acv.FrontEnd.sat_iff_holds", "Acv.FrontEnd.frontEnd_sound",
                     "Acv.FrontEnd.tree_reported_iff", "Acv.FrontEnd.tree_reported_iff_cardinality", "Acv.FrontEnd.frontEnd_classical",
                     "Acv.FrontEnd.frontEnd_key_order", "Acv.FrontEnd.verdicts_key_order", "Acv.FrontEnd.sat_and_iff", "Acv.FrontEnd.sat_or_iff",
                     "Acv.FrontEnd.sat_if_then_iff", "Acv.FrontEnd.sat_if_then_else_iff", "Acv.FrontEnd.sat_nested_iff", "Acv.FrontEnd.sat_atLeast_iff",
                     "Acv.FrontEnd.sat_atMost_iff", "Acv.FrontEnd.sat_exactly_iff", "Acv.FrontEnd.sat_not"]


def cmp_c01y(case, i, m):
    """the whole front-end model run on the YAML TREE of the profile text (parser model -> path PEG model -> IRI expander model ->
    rule tables -> classical semantics / translator model) against the real verdicts"""
    if "error" in m:
        return ("~model-error", "front-end model driver rejected the case: " + m["error"])
    if m.get("outcome") == "unsupported":
        return False
    r = cmp_c01(case, i, m)
    if r and r is not True and not r[0].startswith("~"):
        return r
    if r and r is not True:
        return ("~front-end", "front-end model on the YAML tree: " + r[1])
    if "satReported" in m and m["satReported"] != m["reported"]:
        return ("~front-end-self", "sat on the parsed tree and holds on the converted rule disagree (sat_iff_holds contradicted?)")
    return None


C01_OPERATOR_THEOREMS = ["Acv.C01Operators.source_readable", "Acv.C01Operators.constraintSteps_eq", "Acv.C01Operators.parser_steps_regenerated",
                         "Acv.C01Operators.keywords_nodup", "Acv.C01Operators.prop_operator_denotes", "Acv.C01Operators.prop_operator_total",
                         "Acv.C01Operators.numeric_operator_denotes", "Acv.C01Operators.numeric_switch_total", "Acv.C01Operators.count_operator_denotes",
                         "Acv.C01Operators.polarity", "Acv.C01Operators.keyword_operator", "Acv.C01Operators.keyword_operator_count"]


def check_C01(ctx):
    broken = []
    try:
        build_harness()
        run_extract()
    except Broken as b:
        return conclude(ctx, [b])
    broken += prove(ctx, "Acv.Props.C01Atoms", C01_THEOREMS + C01_ATOM_THEOREMS)
    # keyword -> comparison, REGENERATED from ParseConstraint, the constructors and the three generators' switch / if statements
    broken += prove(ctx, "Acv.Props.C01Operators", C01_OPERATOR_THEOREMS)
    broken += prove(ctx, "Acv.Props.FrontEnd", FRONTEND_THEOREMS)
    q = ctx.quick()
    plan = [("tt", 260 if q else 6000), ("graphcount", 120 if q else 3000), ("atoms", 120 if q else 3000), ("graph", 100 if q else 3000), ("scopes", 120 if q else 3000)]
    try:
        for k, (stream, n) in enumerate(plan):
            before = len(ctx.violations)
            corr(ctx, "c01", n, cmp_c01, seed_offset=k, extra=(stream,), label="c01/" + stream)
            ctx.oblige(f"correspondence:c01/{stream}", len(ctx.violations) == before)
        # the same kinds of cases once more, this time the MODEL side starts from the YAML tree of the profile text
        for k, (stream, n) in enumerate(plan):
            before, nb = len(ctx.violations), len(ctx.breaks)
            corr(ctx, "c01", max(40, n // 3), cmp_c01y, seed_offset=50 + k, extra=(stream,), label="c01y/" + stream,
                 transform=lambda l: l.replace('"op":"c01"', '"op":"c01y"', 1))
            ctx.oblige(f"correspondence:front-end model on the profile's YAML tree, {stream}", len(ctx.violations) == before and len(ctx.breaks) == nb)
    except Broken as b:
        broken.append(b)
    ctx.coverage["rule"] = ("tt: random formulas (and/or/not/if/then/else, depth<=6, width<=4) over k<=5 classical atoms, graph = one target node per truth assignment (whole truth table per validation); "
                            "graphcount: random graphs, cardinality atoms over random paths, nested/atLeast/atMost/exactly; atoms: every atom kind alone and negated; graph: all atom kinds mixed; scopes: 2-3 nested/quantified constraints over different paths, each inside one of seven connective contexts, combined by or/and/not-and/not-or/if-then(-else) in shuffled operand order. "
                            "non-trivial = at least one node reported. Each stream is run a second time with the model side starting from the YAML node tree of the profile TEXT (front-end model: parser, path grammar, IRI expansion, rule tables)")
    ctx.assumptions += ["per-atom Rego snippets are modelled by Atom.fails (tied by the atoms stream); of each snippet only the deciding line's operator and polarity are regenerated from the source (C01Operators), the lines around it (path query, count, iteration) are observed",
                        "per-value atoms (in, pattern, lengths, numeric, datatype, property comparisons) are classical only on single-valued properties; on other graphs the check compares with the literal translator model (stream graph)"]
    return conclude(ctx, broken, trusted=TRUST_COMMON)


# ------------------------------------------------------------------ pipeline skeleton: C04, C09, C11, C17

def cmp_pipe(case, i, m):
    if "error" in m:
        return ("~model-error", "model driver rejected the case: " + m["error"])
    if i.get("outcome") in ("setup-failed", "timeout", "badcase"):
        return ("impl-" + i["outcome"], f"{case['scenario']}: harness could not run the case: {i.get('err')}")
    diffs = []
    for k in ("outcome", "events", "closes", "milestones"):
        if i.get(k) != m.get(k):
            diffs.append(f"{k}: real {i.get(k)} vs skeleton {m.get(k)}")
    if diffs:
        return ("pipe:" + case["scenario"].split(":")[0], f"entry {case['entry']} {case['scenario']}: " + "; ".join(diffs) + f" ({str(i.get('err'))[:120]})")
    return None


def pipe_property_checks(pid, case, i):
    """direct statement of each property on the REAL observations (the failing input is the case itself)"""
    sc = case["scenario"]
    out = []
    if pid == "C04" and sc.startswith("data:") and ("err" in case["oracle"] or "panic" in case["oracle"]) and "report-encode" not in sc:
        if i.get("outcome") == "ok":
            out.append(("report-for-unreadable-data", f"{sc}: entry {case['entry']} returned a report (conforms={i.get('conforms')}) for data that cannot be read"))
        elif i.get("outcome") == "panic":
            out.append(("panic-for-unreadable-data", f"{sc}: entry {case['entry']} panicked: {str(i.get('err'))[:150]}"))
    if pid == "C11":
        evs = i.get("events") or []
        order = [0, 1, 6, 7, 8, 9, 2, 3, 4, 5, 10, 11, 12, 13] if case["entry"] in (0, 2) else ([0, 1, 6, 7, 8, 9] if case["entry"] == 4 else [2, 3, 4, 5, 10, 11, 12, 13])
        if evs != order[:len(evs)]:
            out.append(("not-a-prefix", f"{sc}: entry {case['entry']} events {evs} are not a prefix of the stage order"))
        open_ = None
        for e in evs:
            if e % 2 == 0:
                if open_ is not None:
                    out.append(("overlap", f"{sc}: stage {e} started while {open_} was open")); break
                open_ = e
            else:
                if open_ != e - 1:
                    out.append(("done-without-start", f"{sc}: completion {e} without its start")); break
                open_ = None
        want = 1
        if case["entry"] == 4 and i.get("outcome") == "ok":
            want = 0
        if i.get("outcome") in ("ok", "err") and i.get("closes") != want:
            out.append(("close-count", f"{sc}: entry {case['entry']} outcome {i.get('outcome')}: channel closed {i.get('closes')} times, expected {want}"))
        if i.get("outcome") == "panic" and "close of closed channel" in str(i.get("err")):
            out.append(("closed-twice", f"{sc}: entry {case['entry']}: the library closed the caller's channel a second time (panic: close of closed channel) after events {evs}"))
        elif i.get("outcome") == "panic" and "send on closed channel" in str(i.get("err")):
            out.append(("send-after-close", f"{sc}: entry {case['entry']}: the library sent an event after closing the channel (events {evs})"))
        if i.get("outcome") in ("ok", "err"):
            ndone = sum(1 for e in evs if e % 2 == 1)
            ms = i.get("milestones") or []
            if len(ms) != ndone or any(":negative" in x for x in ms):
                out.append(("milestones", f"{sc}: {ndone} completed stages but milestones {ms}"))
    if pid == "C17" and i.get("outcome") in ("panic", "timeout"):
        out.append(("panic", f"{sc}: entry {case['entry']} {i.get('outcome')}: {str(i.get('err'))[:150]}"))
    return out


def pipe_stream(ctx, pid, full=False):
    lines = gen_cases("pipe", 2 if full else 1, ctx.seed)
    impl = run_impl(lines)
    model = run_model(lines)
    n_bad = 0
    scen = {}
    for line, i, m in zip(lines, impl, model):
        case = json.loads(line)
        scen[case["scenario"].split(":")[0]] = scen.get(case["scenario"].split(":")[0], 0) + 1
        for sig, desc in pipe_property_checks(pid, case, i):
            ctx.violation(f"{pid}:{sig}:{case['scenario']}:{case['entry']}", desc, {"case": case, "impl": i, "model": m})
            n_bad += 1
        r = cmp_pipe(case, i, m)
        if r:
            ctx.brk(f"pipe-corr:{r[0]}:{case['scenario']}:{case['entry']}", "skeleton correspondence: " + r[1], {"case": case, "impl": i, "model": m})
            n_bad += 1
    ctx.coverage.setdefault("streams", {})["pipe"] = {"cases": len(lines), "by_kind": scen}
    ctx.coverage["evaluations"] = ctx.coverage.get("evaluations", 0) + len(lines)
    ctx.coverage["distinct_nontrivial"] = ctx.coverage.get("distinct_nontrivial", 0) + sum(1 for l in lines if '"err"' in l or '"panic"' in l)
    if lines and len(ctx.samples) < 6:
        c = json.loads(lines[len(lines) // 2])
        ctx.samples.append({"stream": "pipe", "case": {k: c[k] for k in ("entry", "oracle", "scenario")}, "impl": impl[len(lines) // 2], "model": model[len(lines) // 2]})
    ctx.oblige("correspondence:pipeline skeleton vs real runs with an event channel (every failing stage x entry point)", n_bad == 0)


def skeleton_check(ctx, pid, module, theorems, extra=None, rule="", assumptions=()):
    broken = []
    try:
        build_harness()
        run_extract()
    except Broken as b:
        return conclude(ctx, [b])
    broken += prove(ctx, module, theorems)
    try:
        pipe_stream(ctx, pid, full=not ctx.quick())
        if extra:
            extra(ctx)
    except Broken as b:
        broken.append(b)
    ctx.coverage["rule"] = rule
    ctx.assumptions += list(assumptions)
    return conclude(ctx, broken, trusted=TRUST_COMMON + ["translator of the pipeline functions into the Stmt skeleton (harness/extract_pipeline.go); statements it cannot read become `opaque` and fail theorem no_opaque"])


C11_THEOREMS = ["Acv.C11.no_opaque", "Acv.C11.emit_is_blocking_send", "Acv.C11.close_is_plain_close", "Acv.C11.other_calls_known", "Acv.C11.events_paired", "Acv.C11.events_prefix_bracketed",
                "Acv.C11.closed_exactly_once", "Acv.C11.compile_profile_close", "Acv.C11.compile_then_validate_close",
                "Acv.C11.milestones_one_per_completed_stage", "Acv.C11.milestone_cases_complete", "Acv.C11.assignment_runs_explored"]


def hist_stream_c11(ctx):
    """histories in which the caller hands every call its event channel through one and the same variable"""
    lines = gen_cases("hist", 24 if ctx.quick() else 400, ctx.seed * 1000 + 11)
    impl = run_impl(lines, jobs=16)
    bad, calls = 0, 0
    for line, i in zip(lines, impl):
        case = json.loads(line)
        if i.get("outcome") != "ok":
            continue
        for k, p in enumerate(i["positions"]):
            if "chanClosed" not in p:
                continue
            calls += 1
            if p.get("compiled") == "panic" and "closed channel" in str(p.get("panic")):
                bad += 1
                ctx.violation("C11:history:closed-channel-panic", f"position {k} of a history of {len(case['docs'])} calls that pass their event channel through one variable: {str(p.get('panic'))[:120]}", {"case": case, "impl": i})
                break
            if p.get("compiled") in ("ok", "err") and p.get("chanClosed") is False:
                bad += 1
                ctx.violation("C11:history:not-closed", f"position {k} ({case['kinds'][k]}) of a history of {len(case['docs'])} calls that pass their event channel through one variable: the call returned ({p.get('compiled')}) but its channel was never closed (earlier calls: {k})", {"case": case, "impl": i})
                break
    ctx.coverage.setdefault("streams", {})["hist-events"] = {"histories": len(lines), "calls_with_channel": calls}
    ctx.oblige("search:each call of a history closes the channel it was given, also when every call gets it through the same variable", bad == 0)


C11_MILESTONE_THEOREMS = ["Acv.C11Milestones.source_readable", "Acv.C11Milestones.closes_once_after_loop",
                          "Acv.C11Milestones.fields_as_documented", "Acv.C11Milestones.strict_reading_agrees",
                          "Acv.C11Milestones.stages_paired", "Acv.C11Milestones.milestones_length", "Acv.C11Milestones.milestones_ops",
                          "Acv.C11Milestones.milestones_bracketed", "Acv.C11Milestones.milestones_of_stages",
                          "Acv.C11Milestones.durations_nonneg", "Acv.C11Milestones.pipeline_milestones"]

# the seven stages in the order of the constants of pkg/events/events.go: stage k = events 2k (Start), 2k+1 (Done)
MS_STAGES = ["ProfileParsing", "InputDataParsing", "InputDataNormalization", "RegoGeneration", "RegoCompilation",
             "OpaValidation", "BuildReport"]


def ms_expected(events):
    """None unless the list is well bracketed ([Start s, Done s] pairs of known stages, optionally one open Start at the end);
    else the milestones the documentation promises: [operation, time of the Start, Done time - Start time] per pair"""
    want = []
    k = 0
    while k < len(events):
        ty, t0 = events[k]
        if ty % 2 != 0 or not (0 <= ty < 14):
            return None
        if k + 1 == len(events):
            break
        ty1, t1 = events[k + 1]
        if ty1 != ty + 1:
            return None
        want.append([MS_STAGES[ty // 2], t0, t1 - t0])
        k += 2
    return want


def cmp_ms(case, i, m):
    """the library's own consumer of the events (pkg/milestones) on an arbitrary list of events"""
    if "error" in m:
        return ("~model-error", "model driver rejected the case: " + m["error"])
    evs = case["events"]
    shown = str(evs) if len(evs) <= 16 else f"{evs[:16]}... ({len(evs)} events)"
    where = f"{case['kind']}/{case['times']} events {shown}"
    want = ms_expected(evs)
    got = i.get("milestones")
    if want is not None:
        # a well-bracketed list: what C11 guarantees the pipeline sends. The property, stated on the REAL output:
        if i.get("outcome") == "timeout":
            return ("ms-not-closed", f"{where}: GenerateMilestonesFromEvents did not return after the event channel was closed: {i.get('err')}")
        if i.get("closes") != 1 or i.get("outcome") != "ok":
            how = {0: "was NOT closed", 2: "was closed twice (panic: close of closed channel)"}.get(i.get("closes"), f"closes={i.get('closes')}")
            return ("ms-close-count", f"{where}: the milestone channel {how} after the event channel had been closed (outcome {i.get('outcome')} {str(i.get('err'))[:120]})")
        if got is None:
            return ("~ms-no-output", f"{where}: harness reported no milestones: {str(i)[:200]}")
        ops_got, ops_want = [x[0] for x in got], [x[0] for x in want]
        if ops_got != ops_want:
            if sorted(ops_got) == sorted(ops_want):
                kind = "misordered"
            elif len(ops_got) < len(ops_want):
                kind = "missing"
            elif len(ops_got) > len(ops_want):
                kind = "extra"
            else:
                kind = "wrong-operation"
            return ("ms-" + kind, f"{where}: completed stages {ops_want} but milestones {ops_got}")
        for k, (g, w) in enumerate(zip(got, want)):
            if g[1] != w[1]:
                return ("ms-wrong-start", f"{where}: milestone {k} {w[0]}: Start {g[1]} but its Start event is at {w[1]}")
            if g[2] != w[2]:
                return ("ms-wrong-duration", f"{where}: milestone {k} {w[0]}: Duration {g[2]} but Done - Start = {w[2]}")
    if i.get("outcome") in ("timeout", "badcase", "crash"):
        return ("~ms-impl-" + i["outcome"], f"{where}: {str(i.get('err'))[:200]}")
    if i.get("outcome") != "ok" or i.get("closes") != 1:
        return ("~ms-close", f"{where}: outcome {i.get('outcome')} closes {i.get('closes')} {str(i.get('err'))[:120]}")
    if got != m.get("milestones"):
        d = next((k for k, (a, b) in enumerate(zip(got, m["milestones"])) if a != b), min(len(got), len(m["milestones"])))
        return ("~ms-model", f"{where}: real milestones and model differ at {d}: {got[d:d+2]} vs {m['milestones'][d:d+2]} (lengths {len(got)}/{len(m['milestones'])})")
    return None


def check_C11(ctx):
    def milestone_consumer(ctx):
        broken = prove(ctx, "Acv.Props.C11Milestones", C11_MILESTONE_THEOREMS)
        lines, impl, model = corr(ctx, "ms", 300 if ctx.quick() else 5000, cmp_ms)
        nb = sum(1 for l in lines if ms_expected(json.loads(l)["events"]) is not None)
        ctx.coverage["streams"]["ms"]["well_bracketed"] = nb
        ctx.oblige("correspondence:milestone model vs the real GenerateMilestonesFromEvents on arbitrary event lists",
                   not any(s.startswith("ms:") for s, _, _ in ctx.breaks) and not any(v[0].startswith("ms:") for v in ctx.violations))
        hist_stream_c11(ctx)
        if broken:
            raise broken[0]
    return skeleton_check(ctx, "C11", "Acv.Props.C11", C11_THEOREMS, extra=milestone_consumer,
        rule="every profile/data variant built to fail at one stage (YAML, structure, unknown prefix, Rego syntax, denied builtin, undecodable data, JSON-LD rejection, evaluation conflict) x every public entry point, run with a real event channel and consumer goroutine; non-trivial = some stage fails. Stream ms: event lists fed to the real pkg/milestones.GenerateMilestonesFromEvents and to the Lean model driven by the regenerated switch table - every prefix of the three stage orders (what the pipeline sends for every outcome), well-bracketed pair sequences in any stage order, permutations/duplications/omissions of them, unknown (also negative) event types, Done before Start, repeated Start, long lists (up to 2000 events), times increasing / with ties / all equal / decreasing / random / decades away, unbuffered, 1-slot and roomy milestone channels; on well-bracketed lists the milestones must be exactly the completed stages with Start = time of the Start event and Duration = Done - Start and the milestone channel must be closed exactly once",
        assumptions=["every event send and close goes through dispatchEvent/CloseEventChan in the translated functions (checked by the correspondence, not by the theorems)",
                     "milestones: event times closer to each other than Go's maximal Duration (292 years); the Start of a Done that never had a Start is Go's zero time (model: none)"])


C04_THEOREMS = ["Acv.C04.data_failure_is_never_a_report", "Acv.C04.report_only_after_all_stages",
                "Acv.C04.process_input_checks_decode", "Acv.C04.swallowed_decode_error_reports", "Acv.C11.no_opaque"]


def hist_stream_c04(ctx):
    n = 24 if ctx.quick() else 400
    lines = gen_cases("hist", n, ctx.seed * 1000 + 4)
    impl = run_impl(lines, jobs=16)
    bad = 0
    docs = 0
    for line, i in zip(lines, impl):
        case = json.loads(line)
        docs += len(case["docs"])
        if i.get("outcome") != "ok":
            continue
        for k, p in enumerate(i["positions"]):
            if case["kinds"][k] in ("jsonld-reject", "undecodable", "empty-text") and (p["compiled"] != "err" or p["fresh"] != "err"):
                bad += 1
                ctx.violation(f"C04:history:{case['kinds'][k]}", f"position {k} of a history of {len(case['docs'])} documents: {case['kinds'][k]} data ({len(case['docs'][k])} bytes) gave compiled={p['compiled']} fresh={p['fresh']} instead of an error (previous document kinds: {case['kinds'][:k][-3:]})",
                              {"case": case, "impl": i})
                break
    ctx.coverage.setdefault("streams", {})["hist"] = {"histories": len(lines), "documents": docs}
    ctx.coverage["evaluations"] = ctx.coverage.get("evaluations", 0) + docs
    ctx.oblige("search:unreadable documents inside histories (after long rejected documents, valid ones, repeats) are always errors", bad == 0)


def check_C04(ctx):
    return skeleton_check(ctx, "C04", "Acv.Props.C04", C04_THEOREMS, extra=hist_stream_c04,
        rule="malformed data corpus (empty, whitespace, truncations of a fixture at 24 offsets, BOM/UTF-16, RAML source, single quotes, NaN, trailing comma; JSON-LD rejects: @type number, @id array, @context number, @value+@id, bad @language, @reverse scalar, keyword redefinition) x 4 validating entry points",
        assumptions=["json-gold's rejection set and encoding/json's decoder are dependencies: which documents they reject is observed, not proved"])


C17_THEOREMS = ["Acv.C17.total_under_guard", "Acv.C17.guard_converts_panics", "Acv.C17.panics_only_from_unguarded_steps",
                "Acv.C17.unguarded_generator_panic_escapes", "Acv.C11.no_opaque"]


def cmp_fuzz(case, i, m):
    if i.get("outcome") in ("ok", "err"):
        return None
    return ("fuzz-" + str(i.get("outcome")), f"{case['kind']} through entry {case['entry']}: {i.get('outcome')}: {str(i.get('err'))[:200]}")


def fuzz_stream(ctx):
    n = 900 if ctx.quick() else 20000
    lines = gen_cases("fuzz", n, ctx.seed * 1000 + 17)
    impl = run_impl(lines)
    kinds = {}
    bad = 0
    for line, i in zip(lines, impl):
        case = json.loads(line)
        k = (case["kind"], i.get("outcome"))
        kinds[f"{k[0]}->{k[1]}"] = kinds.get(f"{k[0]}->{k[1]}", 0) + 1
        r = cmp_fuzz(case, i, None)
        if r:
            bad += 1
            ctx.violation(f"C17:{r[0]}:{str(i.get('err'))[:60]}", r[1], {"case": case, "impl": i})
    ctx.coverage.setdefault("streams", {})["fuzz"] = {"cases": len(lines), "outcomes": kinds}
    ctx.coverage["evaluations"] = ctx.coverage.get("evaluations", 0) + len(lines)
    ctx.coverage["distinct_nontrivial"] = ctx.coverage.get("distinct_nontrivial", 0) + len(set(lines))
    ctx.oblige("search:structured fuzz (hostile profiles/data, mutations of fixtures, raw bytes) finds no panic or hang", bad == 0)


def check_C17(ctx):
    return skeleton_check(ctx, "C17", "Acv.Props.C17", C17_THEOREMS, extra=fuzz_stream,
        rule="pipe: every failing-stage variant x entry point; fuzz: hand-written hostile profiles and data (wrong YAML kinds at every key, anchors/aliases, embedded Rego redefining report rules, malformed source maps), IRI references no URL parser accepts at every position an IRI can stand (with and without @base/@vocab), EVERY single byte and every pair over the 27 bytes that matter to the YAML and JSON decoders as data and as profile (base64 transport, so invalid UTF-8 arrives intact), 1-3 byte/token mutations of the repository's fixtures, raw random bytes; through all 5 public entry points under recover() with a timeout",
        assumptions=["panic-freedom and termination inside yaml.v3, OPA and encoding/json are not modelled (theorem total_under_guard assumes them; json-gold panics are converted by the guard of NormalizeOrError); stack exhaustion and out-of-memory are outside the model"])


C09_THEOREMS = ["Acv.C09.validate_is_compile_then_validateCompiled", "Acv.C09.pkg_wrappers", "Acv.C09.history_independent",
                "Acv.C09.history_position", "Acv.C11.no_opaque"]


def cmp_hist(case, i, m):
    if i.get("outcome") != "ok":
        return ("hist-" + str(i.get("outcome")), f"history case could not run: {str(i.get('err'))[:200]}")
    for k, p in enumerate(i["positions"]):
        if not p["same"]:
            return ("hist-differs", f"position {k} ({case['kinds'][k]}) of a history of {len(case['docs'])} documents: compiled-profile result ({p['compiled']}) differs from a fresh validation ({p['fresh']})")
        if not p.get("repeatSame", True):
            return ("hist-repeat-differs", f"position {k} ({case['kinds'][k]}) of a history of {len(case['docs'])} documents: the same document gave a different report than at its first occurrence (documents in between: {case['kinds'][:k][-3:]})")
        if p["compiled"] == "panic":
            return ("hist-panic", f"position {k} ({case['kinds'][k]}): panic")
        if case["kinds"][k] in ("jsonld-reject", "undecodable", "empty-text") and p["compiled"] != "err":
            return ("hist-bad-doc-accepted", f"position {k} ({case['kinds'][k]}): outcome {p['compiled']}")
    return None


def hist_stream(ctx):
    n = 32 if ctx.quick() else 600
    lines = gen_cases("hist", n, ctx.seed * 1000 + 9)
    impl = run_impl(lines, jobs=16)
    # the independent reference: every distinct (profile, document) ALONE in a process of its own (same clock, same configuration)
    import concurrent.futures, hashlib
    solo_of = {}
    def ctx_states(case):
        """the referenced context documents as they stand when position k is validated"""
        st, out = {}, []
        for k in range(len(case["docs"])):
            st = dict(st, **((case.get("ctx") or [{}] * len(case["docs"]))[k]))
            out.append(json.dumps(st, sort_keys=True))
        return out
    def solo_key(case, k, states):
        rc = (case.get("rcs") or [None] * len(case["docs"]))[k]
        return (case["profile"], case["docs"][k], json.dumps(rc), states[k] if "__CTX__" in case["docs"][k] else "{}")
    for line in lines:
        case = json.loads(line)
        states = ctx_states(case)
        for k, d in enumerate(case["docs"]):
            solo_of.setdefault(solo_key(case, k, states), None)
    def solo(key):
        q = {"op": "c06", "id": 0, "profile": key[0], "data": key[1]}
        if json.loads(key[2]) is not None:
            q["rc"] = json.loads(key[2])
        if key[3] != "{}":
            q["ctxFiles"] = json.loads(key[3])
        p = subprocess.run([ACVH, "oneshot"], input=json.dumps(q) + "\n", capture_output=True, text=True, timeout=600)
        for l in p.stdout.split("\n"):
            if l.strip().startswith("{"):
                return json.loads(l).get("validate")
        return None
    keys = list(solo_of)
    with concurrent.futures.ThreadPoolExecutor(max_workers=16) as ex:
        for k, v in zip(keys, ex.map(solo, keys)):
            solo_of[k] = v
    bad = 0
    docs = 0
    for line, i in zip(lines, impl):
        case = json.loads(line)
        docs += len(case["docs"])
        r = cmp_hist(case, i, None)
        states = ctx_states(case)
        if not r and i.get("outcome") == "ok":
            for k, p in enumerate(i["positions"]):
                ref = solo_of.get(solo_key(case, k, states))
                mine = ("ok:" if p["compiled"] == "ok" else "error:") + (p.get("hash") or "")
                if ref and p["compiled"] in ("ok", "err") and ref != mine:
                    r = ("history-vs-alone", f"position {k} ({case['kinds'][k]}) of a history of {len(case['docs'])} documents (kinds before: {case['kinds'][:k]}): the compiled profile's answer differs from the same validation ALONE in a fresh process")
                    break
        if r:
            bad += 1
            ctx.violation(f"C09:{r[0]}", r[1], {"case": case, "impl": i})
    ctx.coverage.setdefault("streams", {})["hist"] = {"histories": len(lines), "documents": docs}
    ctx.coverage["evaluations"] = ctx.coverage.get("evaluations", 0) + docs
    ctx.coverage["distinct_nontrivial"] = ctx.coverage.get("distinct_nontrivial", 0) + len(lines)
    if lines:
        c = json.loads(lines[0])
        ctx.samples.append({"stream": "hist", "kinds": c["kinds"], "impl": impl[0]})
    ctx.oblige("correspondence:histories through one compiled profile vs fresh validations (byte equality, fixed clock)", bad == 0)


def memo_theorems(ctx):
    """process-wide memo tables (the mechanism behind most history-dependent changes): proved apart from the skeleton"""
    return prove(ctx, "Acv.Props.C09Memo", ["Acv.Memo.memo_transparent", "Acv.Memo.step_answer", "Acv.Memo.step_sound", "Acv.Memo.partial_key_leaks", "Acv.Memo.partialKey_not_complete"])


def check_C09(ctx):
    def extra(ctx):
        for b in memo_theorems(ctx):
            raise b
        hist_stream(ctx)
    return skeleton_check(ctx, "C09", "Acv.Props.C09", C09_THEOREMS, extra=extra,
        rule="histories of 4..9 documents (random graphs that pass/fail, repeats, empty graph, JSON-LD-rejected and undecodable documents) through one PreparedEvalQuery of a random declarative profile with validations on all three levels (one history in six uses a profile that leaves `core`/`apiContract` to the built-in prefix table); in half of the histories OTHER profiles, which rebind built-in aliases or reuse `ex` for another namespace, are validated by the same process between the documents; one history in six runs over documents whose @context is a REFERENCE to a context file that is revised between the calls; each report compared byte for byte with a fresh ValidateWithConfiguration under a fixed clock in the same process AND with the same validation run alone in a process of its own (which sees the same context files)",
        assumptions=["OPA's PreparedEvalQuery.Eval is a pure function of (query, input) returning fresh result trees: this is the hypothesis of history_independent (Engine.evalDoc) and is only observed by the history runs"])


# ------------------------------------------------------------------ C03

C03_THEOREMS = ["Acv.C03.severity_is_level", "Acv.C03.conforms_iff", "Acv.C03.warnings_dont_affect_conforms",
                "Acv.C03.result_key_iff_nonempty", "Acv.C03.profileName_eq", "Acv.C03.dateCreated_iff",
                "Acv.C03.config_only_touches", "Acv.C03.undefined_skipped", "Acv.C03.mem_bucket"]

C03_FIELDS = ("conforms", "profileName", "hasResult", "dateCreated", "results", "ctxReportSchema", "ctxLexicalSchema")


def cmp_c03(case, i, m):
    if "error" in m:
        return ("~model-error", "model driver rejected the case: " + m["error"])
    if i.get("outcome") == "timeout":
        return False
    if i.get("outcome") != "ok":
        return ("impl-" + str(i.get("outcome")), f"profile with levels {case['levels']}: real code gave {i.get('outcome')}: {str(i.get('err'))[:200]}")
    # the property itself, on the real report
    viol = [r for r in i["results"] if r.startswith("http://www.w3.org/ns/shacl#Violation|")]
    if i["conforms"] != (len(viol) == 0):
        return ("conforms", f"conforms={i['conforms']} but the report has {len(viol)} Violation results")
    if i["hasResult"] != (len(i["results"]) > 0):
        return ("result-key", f"result key present={i['hasResult']} with {len(i['results'])} results")
    if isinstance(m.get("dateCreated"), str):
        m = dict(m, dateCreated=re.sub(r"\.\d+(?=Z|[+-]\d\d:\d\d$)", "", m["dateCreated"]))   # whole seconds: the fraction is cut
    for k in C03_FIELDS:
        if i.get(k) != m.get(k):
            return (k, f"report field {k}: real {str(i.get(k))[:200]} vs model {str(m.get(k))[:200]} (levels {case['levels']}, profile name {case['profileName']!r}, config {case['config']})")
    return None


def check_C03(ctx):
    broken = []
    try:
        build_harness()
    except Broken as b:
        return conclude(ctx, [b])
    broken += prove(ctx, "Acv.Props.C03", C03_THEOREMS)
    try:
        corr(ctx, "c03", 240 if ctx.quick() else 6000, cmp_c03)
        ctx.oblige("correspondence:c03 report header real-vs-model", not ctx.violations)
    except Broken as b:
        broken.append(b)
    ctx.coverage["rule"] = ("0..5 validations (names include profile-language keys such as `warning`, `message`, `and`) spread at random over the three levels "
                            "(absent/empty levels, a name under several levels or twice in one, undefined names), profile names that equal keys, random graphs, "
                            "random report configuration (dateCreated on/off, clock incl. zoned times, schema IRIs) through ValidateWithConfiguration and ValidateCompiledWithConfiguration, the default configuration with the wall clock through Validate and ValidateCompiled, debug flag on/off; non-trivial = the report differs from the default conforming one")
    return conclude(ctx, broken, trusted=TRUST_COMMON)


# ------------------------------------------------------------------ C18

C18_THEOREMS = ["Acv.C18.open_truncates", "Acv.C18.stdout_uses_println", "Acv.C18.write_exact", "Acv.C18.validate_file_exact",
                "Acv.C18.stdout_exact", "Acv.C18.failure_no_stdout", "Acv.C18.stale_tail"]


def check_C18(ctx):
    broken = []
    try:
        build_harness()
        run_extract()
        acv = build_cli()
    except Broken as b:
        return conclude(ctx, [b])
    broken += prove(ctx, "Acv.Props.C18", C18_THEOREMS)
    try:
        os.environ["ACV_BIN"] = acv
        lines = gen_cases("cli", 4 if ctx.quick() else 60, ctx.seed)
        impl = run_impl(lines)
        # second phase: the model gets the library's output and the prior file state
        mlines = []
        for line, i in zip(lines, impl):
            c = json.loads(line)
            mc = {"op": "cli", "sub": c["sub"], "toFile": c["toFile"]}
            if i.get("outcome") == "ok":
                if not i["libFailed"]:
                    mc["lib"] = i["lib"]
                if i.get("prior") is not None:
                    mc["prior"] = i["prior"]
            mlines.append(json.dumps(mc))
        model = run_model(mlines)
        bad = 0
        hist = {}
        for line, i, m in zip(lines, impl, model):
            c = json.loads(line)
            key = f"{c['sub']}/{'file:' + c['prior'] if c['toFile'] else 'stdout'}/{c['kind']}"
            hist[key] = hist.get(key, 0) + 1
            desc = None
            if i.get("outcome") != "ok":
                desc = ("harness", f"could not run the binary: {i.get('outcome')}")
            elif "error" in m:
                desc = ("model-error", m["error"])
            elif (i["exit"] == 0) != m["exitZero"]:
                desc = ("exit", f"acv {c['sub']} ({c['kind']}): exit status {i['exit']} but the library {'failed' if i['libFailed'] else 'succeeded'} ({i.get('stderrHead')})")
            elif i["stdout"] != m["stdout"]:
                desc = ("stdout", f"acv {c['sub']} ({c['kind']}): stdout ({len(i['stdout'])} bytes) differs from the library's output + newline ({len(m['stdout'])} bytes)")
            elif c["toFile"] and i.get("file") != m.get("file"):
                desc = ("file:" + c["prior"], f"acv validate with output file (prior state {c['prior']}): file has {len(i.get('file') or '')} bytes, the report has {len(m.get('file') or '')}")
            elif not i.get("dateOk", True):
                desc = ("date", "dateCreated printed by the CLI is not an RFC 3339 time within the run window")
            if desc:
                bad += 1
                ctx.violation(f"C18:{desc[0]}:{c['sub']}:{c['kind']}", desc[1],
                              {"case": c, "impl": {k: (v if not isinstance(v, str) or len(v) < 600 else v[:600] + '...') for k, v in i.items()}, "model": {k: (v if not isinstance(v, str) or len(v) < 600 else v[:600] + '...') for k, v in m.items()}})
        ctx.coverage.setdefault("streams", {})["cli"] = {"cases": len(lines), "by_kind": hist}
        ctx.coverage["evaluations"] = len(lines)
        ctx.coverage["distinct_nontrivial"] = len(hist)
        ctx.samples.append({"stream": "cli", "case": {k: json.loads(lines[3])[k] for k in ("sub", "prior", "toFile", "kind")},
                            "impl": {k: impl[3].get(k) for k in ("exit", "libFailed", "dateOk")}})
        ctx.oblige("correspondence:built acv binary vs library output over prior file states x subcommands", bad == 0)
    except Broken as b:
        broken.append(b)
    ctx.coverage["rule"] = ("acv validate/generate/normalize/compile on conforming, violating, random and failing inputs, data whose JSON spelling a re-encoder would change (number literals, escapes), profiles the translator accepts and the engine rejects, operational faults (missing profile/data file, missing arguments, output path in a missing directory); "
                            "output file prior state absent/empty/shorter/longer/1MiB, a dangling symbolic link, a link to an existing file, the data file itself; file names with $VAR/${VAR} (VAR set), blanks and non-ASCII letters; "
                            "library output computed in-process; only the value of dateCreated is masked (checked to be RFC 3339 within the run window)")
    ctx.assumptions += ["a read-only output file cannot be produced as root in this sandbox: that prior state exists only in the model"]
    return conclude(ctx, broken, trusted=TRUST_COMMON + ["os.OpenFile/os.Create/WriteString semantics (modelled by opened/writeAt0)"])


# ------------------------------------------------------------------ C16

C16_THEOREMS = ["Acv.C16.doc_eq_table", "Acv.C16.accepts_whole", "Acv.C16.runStart_whole", "Acv.C16.table_endsWithEOF",
                "Acv.C16.old_truncates", "Acv.C16.new_rejects_junk", "Acv.C16.table_isPath", "Acv.C16.render_parseFull",
                "Acv.C16.render_parse", "Acv.C16.ws_insensitive", "Acv.C16.spells_render"]


def cmp_c16(case, i, m):
    if "error" in m:
        return ("~model-error", "model driver rejected the case: " + m["error"])
    if i.get("result") == "PANIC":
        return ("panic", f"ParsePath({case['text']!r}) panicked: {str(i.get('err'))[:150]}")
    if "canonResult" in i and i["canonResult"] != i.get("result") and "PANIC" not in (i["canonResult"], i.get("result")):
        return ("whitespace-variant", f"ParsePath({case['text']!r}) = {i.get('result')} but the same path without optional whitespace, {case['canon']!r}, gives {i['canonResult']}")
    if i.get("result") != m.get("result"):
        return ("parse", f"ParsePath({case['text']!r}) = {i.get('result')} but the documented grammar gives {m.get('result')}")
    want = "REJECT" if m.get("result") == "REJECT" else "ACCEPT"
    for site, what in (("asKey", "as the key of a property constraint"), ("asComparison", "as the argument of lessThanProperty"),
                       ("asElse", "as a constraint key in the else part of a conditional"), ("asThen", "as a constraint key in the then part of a conditional"),
                       ("asOrOperand", "as a constraint key in an operand of `or`"), ("asNestedKey", "as a constraint key under a nested constraint")):
        if site in i and i[site] != want:
            return ("profile-site:" + site, f"the string {case['text']!r} {what}: the profile parser says {i[site]}, but the documented grammar {'rejects' if want == 'REJECT' else 'accepts'} it as a path")
    return None


def check_C16(ctx):
    broken = []
    try:
        build_harness()
        run_extract()
    except Broken as b:
        return conclude(ctx, [b])
    broken += prove(ctx, "Acv.Props.C16", C16_THEOREMS)
    try:
        if ctx.quick():
            lines, impl, model = corr(ctx, "c16", 150, cmp_c16)
        else:
            lines, impl, model = corr(ctx, "c16", 1500, cmp_c16, extra=("exhaustive",))
        acc = sum(1 for i in impl if i.get("result") not in ("REJECT", "PANIC"))
        ctx.coverage["streams"]["c16"]["accepted"] = acc
        ctx.coverage["streams"]["c16"]["rejected"] = len(impl) - acc
        ctx.coverage["distinct_nontrivial"] = len(set(json.loads(l)["text"] for l in lines))
        ctx.oblige("correspondence:real ParsePath vs PEG model over the regenerated table (sentences in whitespace/parenthesis variants and their single-edit mutations)", not ctx.violations)
    except Broken as b:
        broken.append(b)
    ctx.coverage["rule"] = ("a fixed list of boundary strings with ALL their single-edit mutations (insert/delete/replace/transpose over the path alphabet incl. non-ASCII), "
                            "random sentences of the grammar (depth<=4) with random optional whitespace and redundant parentheses - each also in a canonical spelling without optional whitespace, which must be accepted and parsed alike -, "
                            "and 25 (quick) or all (thorough) single-edit mutations of each; compared: accept/reject and the parsed structure, at ParsePath and where a profile holds paths (constraint key, *Property argument)")
    ctx.assumptions += ["the ~1200-line pigeon runtime inside peg.go is modelled by the generic PEG interpreter (Acv/Model/Peg.lean); the semantic actions onExpression1/onTerm1/onFactor*/onIri1 are hand-modelled; both are tied by this correspondence"]
    return conclude(ctx, broken, trusted=TRUST_COMMON + ["grammar-table translators for peg.go and propertyparser.peg (harness/extract_peg.go)"])


# ------------------------------------------------------------------ C13

C13_THEOREMS = ["Acv.C13.lex_quote", "Acv.C13.lex_quote_append", "Acv.C13.lex_quote_string", "Acv.C13.quote_no_raw_quote",
                "Acv.C13.quote_no_bare_quote", "Acv.C13.sprintf_escaped", "Acv.C13.sprintf_no_args", "Acv.C13.hex4_roundtrip"]
C13_MESSAGE_THEOREMS = ["Acv.C13.parse_lengths", "Acv.C13.message_render", "Acv.C13.placeholders_verbatim"]


def cmp_c13(case, i, m):
    if "error" in m:
        return ("~model-error", "model driver rejected the case: " + m["error"])
    # the property itself, on the real report, first
    if i.get("outcome") != "ok":
        return ("compile", f"profile name {case['name']!r}, validation {case['vname']!r}, message {case['message']!r}, list {case['listvals']}: {i.get('outcome')}: {str(i.get('err'))[:200]}")
    if i["profileName"] != m["profileName"]:
        return ("profileName", f"profileName {i['profileName']!r} instead of {m['profileName']!r}")
    rs = i.get("results") or []
    want_focus = ["http://ex.org/n/1", "http://ex.org/n/2"] if case.get("twin") else ["http://ex.org/n/1"]
    if sorted(set(r["focus"] for r in rs)) != want_focus:
        return ("list-values", f"list values {case['listvals']} were not matched verbatim: reported nodes {[r['focus'] for r in rs]} (expected {want_focus}" + (": n/2 holds `x` and `y`, which the twin constraint over [..., `x,y`] does not allow)" if case.get("twin") else ")"))
    rs = [r for r in rs if r["focus"] == "http://ex.org/n/1"]
    if rs[0]["shape"] != m["shape"]:
        return ("shape", f"sourceShapeName {rs[0]['shape']!r} instead of {m['shape']!r}")
    if case.get("customMessage"):
        if rs[0]["message"] != case["customMessage"]:
            return ("custom-message", f"an embedded-Rego alternative of the failure branch sets $message to {case['customMessage']!r}, but the result says {rs[0]['message']!r}")
    elif rs[0]["message"] != m["message"]:
        return ("message", f"message template {case['message']!r} rendered as {rs[0]['message']!r}, expected {m['message']!r}")
    # then the unit-level ties of the model
    if i.get("quoted") != m.get("quoted"):
        bad = [k for k in m["quoted"] if i["quoted"].get(k) != m["quoted"][k]]
        return ("~quote", f"RegoString({bad[0]!r}) = {i['quoted'].get(bad[0])!r} but the proved quoting function gives {m['quoted'][bad[0]]!r}")
    if not i.get("engineLexesBack"):
        return ("~engine-lex", "the engine's own lexer does not read a quoted literal back to the original string")
    if i.get("msgFormat") != m.get("msgFormat") or i.get("msgVars") != m.get("msgVars"):
        return ("~message-parse", f"ParseMessageExpression({case['message']!r}) = ({i.get('msgFormat')!r}, {i.get('msgVars')}) but the model gives ({m.get('msgFormat')!r}, {m.get('msgVars')})")
    if m["message"] != m["messageViaPolicy"]:
        return ("~model-self", "message model: policy-side rendering differs from the specification (message_render contradicted?)")
    return None


def check_C13(ctx):
    broken = []
    try:
        build_harness()
    except Broken as b:
        return conclude(ctx, [b])
    thms = list(C13_THEOREMS)
    if os.path.exists(os.path.join(LEAN, "Acv", "Props", "C13Message.lean")):
        broken += prove(ctx, "Acv.Props.C13Message", C13_MESSAGE_THEOREMS)
    broken += prove(ctx, "Acv.Props.C13", thms)
    try:
        corr(ctx, "c13", 400 if ctx.quick() else 12000, cmp_c13)
        ctx.oblige("correspondence:c13 hostile text (quoting function, message parsing, end-to-end report fields)", not ctx.violations)
    except Broken as b:
        broken.append(b)
    ctx.coverage["rule"] = ("strings assembled from a hostile alphabet (quotes, backslash, %, %v, %d, {{, }}, newline, tab, backtick, $, $message, control characters, DEL, non-ASCII, astral, language keywords) as profile name, "
                            "validation name, message with 0..3 placeholders (known, missing, unknown-prefix, malformed) and in-list values; checked: RegoString vs the proved quote, the engine's lexer reading it back, "
                            "ParseMessageExpression vs the model, and profileName/sourceShapeName/resultMessage/list matching in the real report")
    ctx.assumptions += ["OPA's sprintf is modelled by sprintfModel on the verbs %% and %v (the only ones left after escaping)", "yaml.v3 decodes the double-quoted scalars the generator writes"]
    return conclude(ctx, broken, trusted=TRUST_COMMON)


# ------------------------------------------------------------------ C12

C12_THEOREMS = ["Acv.C12.ids_nodup", "Acv.C12.ids_extend", "Acv.C12.join_injective", "Acv.C12.ids_good", "Acv.C12.topIds_shape",
                "Acv.C12.topIds_nodup", "Acv.C12.report_ids_unique", "Acv.C12.document_ids_nodup", "Acv.C12.collision_without_wf"]


def walk_ids(node, acc, depth=0, stats=None):
    if isinstance(node, dict):
        if "@id" in node and "@type" in node:    # report nodes are typed; {"@id": x} alone is a data link quoted in a trace
            acc.append(node["@id"])
        if stats is not None and "subResult" in node:
            stats["maxdepth"] = max(stats.get("maxdepth", 0), depth + 1)
        for k, v in node.items():
            walk_ids(v, acc, depth + (1 if k == "subResult" else 0), stats)
    elif isinstance(node, list):
        for v in node:
            walk_ids(v, acc, depth, stats)


def typed_without_id(node):
    """first typed node of the report that carries no @id (every node of the report must have one)"""
    if isinstance(node, dict):
        if "@type" in node and "@id" not in node:
            return node
        for v in node.values():
            r = typed_without_id(v)
            if r is not None:
                return r
    elif isinstance(node, list):
        for v in node:
            r = typed_without_id(v)
            if r is not None:
                return r
    return None


def check_result_shape(r, node_ids, names, nested=False):
    """the property's last sentence, on one result of the real report"""
    if not isinstance(r.get("focusNode"), str) or r["focusNode"] not in node_ids:
        return f"focusNode {r.get('focusNode')!r} is not the @id of an input node"
    shape = r.get("sourceShapeName")
    if nested:
        if shape != "nested":
            return f"sub-result names validation {shape!r}, expected `nested`"
    elif shape not in names:
        return f"sourceShapeName {shape!r} is not a validation of the profile"
    if not isinstance(r.get("resultMessage"), str) or r["resultMessage"] == "":
        return "empty resultMessage"
    tr = r.get("trace")
    if not isinstance(tr, list) or not tr:
        return "empty trace"
    for t in tr:
        if not t.get("component") or not isinstance(t.get("resultPath"), str):
            return f"trace entry without component/path: {str(t)[:120]}"
        tv = t.get("traceValue") or {}
        for s in tv.get("subResult", []) or []:
            e = check_result_shape(s, node_ids, names, nested=True)
            if e:
                return e
    return None


C12_TRACE_THEOREMS = ["Acv.C12Trace.branches_have_literals", "Acv.C12Trace.results_complete", "Acv.C12Trace.results_complete_env",
                      "Acv.C12Trace.traceOK_spelled", "Acv.C12Trace.path_rendering_nonempty", "Acv.C12Trace.component_nonempty",
                      "Acv.C12Trace.trace_entry_per_literal", "Acv.C12Trace.one_result_per_firing_branch", "Acv.C12Trace.results_iff_fires",
                      "Acv.C12Trace.results_iff_reported", "Acv.C12Trace.results_iff_fails", "Acv.C12Trace.improper_empty_trace"]


def check_C12(ctx):
    broken = []
    try:
        build_harness()
    except Broken as b:
        return conclude(ctx, [b])
    broken += prove(ctx, "Acv.Props.C12", C12_THEOREMS)
    broken += prove(ctx, "Acv.Props.C12Trace", C12_TRACE_THEOREMS)
    broken += prove(ctx, "Acv.Props.C12Path", ["Acv.C12Path.not_compact_of_foreign", "Acv.C12Path.reexpand_fails_of_foreign", "Acv.C12Path.reexpansion_rewrites"])
    try:
        lines = gen_cases("c12", 80 if ctx.quick() else 2500, ctx.seed * 1000 + 5)
        impl = run_impl(lines)
        mlines, keep = [], []
        stats = {"maxdepth": 0, "results": 0, "ids": 0, "multi_trace": 0, "skipped": 0}
        for line, i in zip(lines, impl):
            case = json.loads(line)
            if i.get("outcome") == "timeout":
                stats["skipped"] += 1
                continue
            if i.get("outcome") != "ok":
                ctx.violation(f"C12:impl-{i.get('outcome')}", f"declarative profile: {i.get('outcome')}: {str(i.get('err'))[:200]}", {"case": case, "impl": i})
                continue
            doc = i["report"]
            rep = doc[0]["doc:encodes"][0] if isinstance(doc, list) and len(doc) == 1 and len(doc[0].get("doc:encodes", [])) == 1 else None
            if rep is None or rep.get("@id") != "validation-report":
                ctx.violation("C12:instance", "report is not one dialect instance encoding one validation-report node", {"case": case, "impl": i})
                continue
            results = rep.get("result", [])
            levels = {"violation": [], "warning": [], "info": []}
            for r in results:
                sev = str(r.get("resultSeverity", "")).rsplit("#", 1)[-1].lower()
                levels.setdefault(sev, []).append(r)
            mlines.append(json.dumps({"op": "c12", "levels": levels}))
            keep.append((case, i, doc, results))
        model = run_model(mlines) if mlines else []
        bad = 0
        for (case, i, doc, results), m in zip(keep, model):
            node_ids = {n["id"] for n in case["graph"]}
            names = {v["name"] for v in case["validations"]}
            all_ids = []
            walk_ids(doc, all_ids, 0, stats)
            res_ids = []
            walk_ids(results, res_ids)
            stats["results"] += len(results)
            stats["ids"] += len(all_ids)
            stats["multi_trace"] += sum(1 for r in results if len(r.get("trace", [])) > 1)
            desc = None
            if "error" in m:
                desc = ("model-error", m["error"])
            elif typed_without_id(doc) is not None:
                desc = ("node-without-id", f"a node of the report has no @id: {json.dumps(typed_without_id(doc))[:200]}")
            elif len(set(all_ids)) != len(all_ids):
                dup = sorted(x for x in set(all_ids) if all_ids.count(x) > 1)[:3]
                desc = ("duplicate-id", f"@id values occur twice in one report: {dup}")
            elif not m["wf"]:
                desc = ("shape", "a result tree is outside the shape for which id uniqueness is proved (two arrays of typed nodes under one parent, or a key with `_`/digits)")
            elif sorted(res_ids) != m["ids"]:
                only_real = sorted(set(res_ids) - set(m["ids"]))[:3]
                only_model = sorted(set(m["ids"]) - set(res_ids))[:3]
                desc = ("ids", f"ids in the report differ from the positional scheme: only in report {only_real}, only in model {only_model}")
            else:
                for r in results:
                    e = check_result_shape(r, node_ids, names)
                    if e:
                        desc = ("result-shape", e)
                        break
            if desc:
                bad += 1
                if desc[0] in ("shape", "ids", "model-error"):
                    ctx.brk("C12:" + desc[0], desc[1], {"case": {k: case[k] for k in case if k != "data"}, "report": doc})
                else:
                    ctx.violation("C12:" + desc[0], desc[1], {"case": {k: case[k] for k in case if k != "data"}, "report": doc})
        # the trace model (Acv/Model/Trace.lean): which results with which trace entries and sub-results the policy reports
        import tracecmp
        tl = [json.dumps({"op": "c12t", "graph": c["graph"], "atoms": c["atoms"], "paths": c["paths"], "validations": c["validations"]}) for (c, _, _, _) in keep]
        tmodel = run_model(tl) if tl else []
        tbad = 0
        for (case, i, doc, results), tm in zip(keep, tmodel):
            if "error" in tm:
                tbad += 1
                ctx.brk("C12:trace-model-error", "trace model driver rejected the case: " + tm["error"], {"case": {k: case[k] for k in case if k != "data"}})
                continue
            diff = tracecmp.trace_difference(doc, tm)
            unnamed = tracecmp.unnamed_paths(doc, tm) if diff else None
            if unnamed:
                tbad += 1
                ctx.violation("C12:trace-path-unnamed", unnamed, {"case": {k: case[k] for k in case if k != "data"}, "report": doc})
            elif diff:
                tbad += 1
                ctx.brk("C12:trace-model", "traces of the real report differ from the trace model: " + diff, {"case": {k: case[k] for k in case if k != "data"}, "report": doc})
        ctx.oblige("correspondence:results, trace entries (component, path) and sub-results of real reports = trace model (one entry per literal of a firing branch)", tbad == 0)
        ctx.coverage.setdefault("streams", {})["c12"] = dict(stats, reports=len(keep))
        ctx.coverage["evaluations"] = len(lines)
        ctx.coverage["distinct_nontrivial"] = sum(1 for (_, _, _, rs) in keep if rs)
        if keep:
            ctx.samples.append({"stream": "c12", "validations": keep[0][0]["validations"], "n_results": len(keep[0][3])})
        ctx.oblige("correspondence:ids of real reports = assignIds of the result trees; result trees satisfy WF; groundedness and completeness of every result", bad == 0 and not ctx.violations)
    except Broken as b:
        broken.append(b)
    ctx.coverage["rule"] = ("random declarative profiles with nested/quantified constraints wrapped 1..3 levels deep (several traces per result, several sub-results per trace), validations on all three levels, link-heavy graphs; "
                            "every @id of the real report is compared with the Lean model of defineIdRecursively; results, their trace entries (component, path) and nested sub-results are compared with the Lean trace model; unusual legal message forms and hostile validation names; non-trivial = the report has results")
    ctx.assumptions += ["the result shape (which keys hold typed children) is whatever the real report contains: each real result tree is checked against the decidable WF predicate the uniqueness theorem needs"]
    return conclude(ctx, broken, trusted=TRUST_COMMON)


# ------------------------------------------------------------------ C14

C14_THEOREMS = ["Acv.C14.readNat_showNat", "Acv.C14.showNat_digits", "Acv.C14.digitRuns_range", "Acv.C14.parseRange_fmtRange",
                "Acv.C14.showNat_injective", "Acv.C14.digitRuns_range_junk", "Acv.C14.parseRange_junk",
                "Acv.C14.lexical_iff", "Acv.C14.property_entries_ignored", "Acv.C14.file_is_listing_location",
                "Acv.C14.file_unique_listing", "Acv.C14.no_sourcemaps_no_location", "Acv.C14.location_numbers"]


def cmp_c14(case, i, m):
    if "error" in m:
        return ("~model-error", "model driver rejected the case: " + m["error"])
    if i.get("outcome") != "ok":
        return ("impl-" + str(i.get("outcome")), f"real code gave {i.get('outcome')}: {str(i.get('err'))[:200]}")
    kids = case.get("kids") or {}
    for t in case.get("reported") or case["targets"]:
        real = i["byFocus"].get(t)
        exp = m["byFocus"][t]
        if real is None:
            return ("missing-result", f"node {t} is not reported at all")
        if real["location"] != exp:
            return ("result-location", f"node {t}: result location {real['location']} but its lexical entry says {exp}")
        comps = real.get("traceComponents") or [None] * len(real["traceLocations"])
        for tl, comp in zip(real["traceLocations"], comps):
            about, want = t, exp
            if comp == "rego" and t in kids:     # the embedded-Rego constraint designated another node ($traceNode)
                about, want = kids[t], m["byFocus"][kids[t]]
            if tl != want:
                return ("trace-location", f"result about {t}: the trace of `{comp}` is about node {about} and carries location {tl}, but that node's lexical entry says {want}")
        if case.get("nested"):
            subs = real.get("subResults") or []
            if [sr.get("focus") for sr in subs] != [kids[t]]:
                return ("~sub-result-shape", f"result about {t}: expected one sub-result about {kids[t]}, got {[sr.get('focus') for sr in subs]}")
            want = m["byFocus"][kids[t]]
            for sr in subs:
                for loc in [sr.get("location")] + list(sr.get("traceLocations") or []):
                    if loc != want:
                        return ("sub-result-location", f"sub-result about {sr.get('focus')} (inside the result about {t}) carries location {loc}, but that node's lexical entry says {want}")
        elif kids and sorted(c for c in comps if c) != ["pattern", "rego"]:
            return ("~trace-shape", f"result about {t}: expected one pattern and one rego trace, got {comps}")
    if not i.get("sameWithoutMaps"):
        return ("maps-change-results", "results with and without source maps differ in more than the location")
    return None


def check_C14(ctx):
    broken = []
    try:
        build_harness()
    except Broken as b:
        return conclude(ctx, [b])
    broken += prove(ctx, "Acv.Props.C14Index", C14_THEOREMS)
    try:
        lines, impl, model = corr(ctx, "c14", 250 if ctx.quick() else 8000, cmp_c14)
        nloc = sum(1 for m in model for v in m.get("byFocus", {}).values() if v)
        ctx.coverage["streams"]["c14"]["nodes_with_location"] = nloc
        ctx.coverage["distinct_nontrivial"] = sum(1 for m in model if any(m.get("byFocus", {}).values()))
        ctx.oblige("correspondence:c14 result and trace locations vs lexical index model", not ctx.violations)
    except Broken as b:
        broken.append(b)
    ctx.coverage["rule"] = ("1..6 target nodes; per node a node-level lexical entry, a property-level entry only, both, or none; ranges with magnitudes 0, <10, <1e5, ~2^53 and up to 30 digits; 0..3 additional "
                            "source files listing random subsets of the nodes (a node may be listed by several); source information with a root location, without one, or absent altogether; data without any source maps; the failing constraint varies over six kinds; unusual file references (spaces, non-ASCII, upper-case scheme, drive path, empty fragment); nested constraints whose sub-results are about linked nodes with or without a class; one case in three uses a failure branch of two constraints (or / if-then, both operand orders) one of which is embedded Rego that designates ANOTHER node ($traceNode) with its own entry and file; also checked: the same graph without source maps gives identical results minus locations")
    ctx.assumptions += ["regex.find_n and to_number of the engine are modelled by digitRuns/readNat (tied by this correspondence, including 30-digit numbers)"]
    return conclude(ctx, broken, trusted=TRUST_COMMON)


# ------------------------------------------------------------------ C10

C10_THEOREMS = ["Acv.C10.atomic_issues_range", "Acv.C10.atomic_unique", "Acv.C10.atomic_unique_per_thread",
                "Acv.C10.atomic_disjoint_between_threads", "Acv.C10.racy_collides", "Acv.C10.racy_duplicate_across_threads",
                "Acv.C10.racy_lost_update", "Acv.C10.racy_sequential_ok",
                "Acv.C10.package_vars_expected", "Acv.C10.writes_are_atomic", "Acv.C10.no_goroutines"]


def run_private_tmp(cmd, env, timeout=1800):
    """run a harness command whose temporary files (context documents) go to a directory of its own, removed afterwards
    even when the process is killed or the race detector ends it"""
    import tempfile, shutil
    d = tempfile.mkdtemp(prefix="acvrun")
    try:
        return subprocess.run(cmd, capture_output=True, text=True, timeout=timeout, env=dict(env, TMPDIR=d))
    finally:
        shutil.rmtree(d, ignore_errors=True)


def check_C10(ctx):
    broken = []
    try:
        build_harness()
        run_extract()
    except Broken as b:
        return conclude(ctx, [b])
    try:
        lake_build(["Acv.Props.C10Inventory"])
    except Broken as b:
        broken.append(b)
    broken += prove(ctx, "Acv.Props.C10", C10_THEOREMS, extra_targets=["Acv.Props.C10Inventory"])
    # search side: the race detector and serial/parallel comparison (never a substitute for the theorems)
    try:
        race_bin = build_harness(race=True)
        rounds = 3 if ctx.quick() else 12
        total_calls, bad = 0, 0
        for r in range(rounds):
            env = dict(os.environ, GORACE="halt_on_error=0 history_size=2")
            p = run_private_tmp([race_bin, "racestress", str(ctx.seed * 100 + r), "16" if ctx.quick() else "24", "8" if ctx.quick() else "12"], env)
            out = None
            for l in p.stdout.split("\n"):
                if l.startswith("{"):
                    out = json.loads(l)
            races = p.stderr.count("WARNING: DATA RACE")
            if races:
                bad += 1
                first = p.stderr[p.stderr.find("WARNING: DATA RACE"):][:1500]
                where = re.findall(r"\n\s+(/repo/[^\s]+)", first)
                own = [w for w in where if "/repo/" in w][:4]
                ctx.violation("C10:data-race:" + ",".join(own[:2]), f"the race detector reports {races} data race(s) under {out and out.get('goroutines')} concurrent goroutines; first at {own[:2]}",
                              {"round": r, "stderr_head": first, "summary": out})
            if out is not None and out.get("outcome") == "blocked":
                bad += 1
                ctx.violation("C10:calls-never-returned", f"{len(out.get('stuck') or [])} of {out.get('goroutines')} goroutines were still inside a call {out.get('after_s')} s after the start ({out.get('calls')} calls had returned): {(out.get('stuck') or [])[:4]}",
                              {"round": r, "summary": out, "replay_cmd": f"acvh_race racestress {ctx.seed * 100 + r} {'16' if ctx.quick() else '24'} {'8' if ctx.quick() else '12'}"})
                break   # (every further round would wait for the same calls again)
            elif out is None or out.get("outcome") != "ok":
                bad += 1
                ctx.violation("C10:stress-failed", f"race stress run did not finish: rc={p.returncode} {p.stderr[-300:]}", {"round": r, "stderr_tail": p.stderr[-1500:]})
                continue
            total_calls += out["calls"]
            if out["mismatches"]:
                bad += 1
                ctx.violation("C10:interference:" + out["mismatches"][0].split(" on job")[0].split("call")[-1][:40], out["mismatches"][0], {"round": r, "summary": out})
        ctx.coverage.setdefault("streams", {})["racestress"] = {"rounds": rounds, "concurrent_calls": total_calls}
        ctx.coverage["evaluations"] = total_calls
        ctx.coverage["distinct_nontrivial"] = rounds
        ctx.samples.append({"stream": "racestress", "rounds": rounds, "calls": total_calls})
        ctx.oblige("search:-race stress (mixed Validate/CompileProfile/ValidateCompiled with a shared compiled profile) and serial-vs-parallel report comparison", bad == 0)
    except Broken as b:
        broken.append(b)
    ctx.coverage["rule"] = ("theorems over every schedule of any number of threads; inventory of package-level state regenerated with go/packages; "
                            "search: 16-24 goroutines x 8-12 calls mixing all entry points over ~26 jobs (random profiles, a big accepted one, two rejected ones, cold prefix-less ones, documents whose @context is a file, "
                            "jobs whose EVALUATION fails - more per run than there are processors), every job under a report configuration of its own (several agree in one schema IRI and differ in the other), "
                            "one PreparedEvalQuery shared by all, under the Go race detector, each result compared with its serial counterpart; a watchdog names the calls that never returned")
    ctx.assumptions += ["data-race freedom of OPA, json-gold, yaml.v3 and of the Go runtime's view of memory is not modelled: a torn read cannot be exhibited by the interleaving model; only searched with the race detector",
                        "OPA documents PreparedEvalQuery.Eval as safe for concurrent use"]
    return conclude(ctx, broken, trusted=TRUST_COMMON + ["go/packages-based inventory extractor (harness/extract_types.go)"])


# ------------------------------------------------------------------ C06

C06_THEOREMS = ["Acv.C06.insertAll_perm", "Acv.C06.insertAll_lookup", "Acv.C06.iriContext_perm", "Acv.C06.assignFields_perm",
                "Acv.C06.field_ids_independent", "Acv.C06.assignIds_perm", "Acv.C06.assignIds_nodup_perm",
                "Acv.C06.sites_expected", "Acv.C06.no_go_statements", "Acv.C06.old_order_leaks",
                "Acv.C06.insertAll_needs_distinct_keys"]


def check_C06(ctx):
    broken = []
    try:
        build_harness()
        run_extract()
    except Broken as b:
        return conclude(ctx, [b])
    broken += prove(ctx, "Acv.Props.C06", C06_THEOREMS)
    broken += prove(ctx, "Acv.Props.C06Alias", ["Acv.Alias.copy_history_independent", "Acv.Alias.copy_lookup", "Acv.Alias.lookup_overlay", "Acv.Alias.alias_leaks"])
    try:
        n = 24 if ctx.quick() else 120
        runs = 8 if ctx.quick() else 48
        lines = gen_cases("c06", n, ctx.seed * 1000 + 3)
        # plus the repository's own fixtures (profile + data) as cases
        fixtures = []
        tdir = os.path.join(REPO, "test", "data", "integration")
        if os.path.isdir(tdir):
            for d in sorted(os.listdir(tdir))[: (6 if ctx.quick() else 40)]:
                pf, df = os.path.join(tdir, d, "profile.yaml"), os.path.join(tdir, d, "negative.data.jsonld")
                if os.path.exists(pf) and os.path.exists(df):
                    fixtures.append(json.dumps({"op": "c06", "id": 1000 + len(fixtures), "profile": open(pf).read(), "data": open(df).read()}))
        payload = "\n".join(lines + fixtures) + "\n"
        import concurrent.futures
        def one(k):
            # even runs: same order (generated code AND report must coincide); odd runs: a permuted history with every
            # case twice (reports must still coincide: a report may not depend on what the process did before)
            args = [ACVH, "oneshot"] + ([str(1000 + k)] if k % 2 == 1 else [])
            p = subprocess.run(args, input=payload, capture_output=True, text=True, timeout=3600)
            return [json.loads(l) for l in p.stdout.split("\n") if l.strip()]
        with concurrent.futures.ThreadPoolExecutor(max_workers=16) as ex:
            outs = list(ex.map(one, range(runs)))
        cases = [json.loads(l) for l in lines + fixtures]
        # and every case ALONE in a process of its own: the reference that no other call can have influenced
        def solo(line):
            p = subprocess.run([ACVH, "oneshot"], input=line + "\n", capture_output=True, text=True, timeout=3600)
            return [json.loads(l) for l in p.stdout.split("\n") if l.strip()]
        with concurrent.futures.ThreadPoolExecutor(max_workers=16) as ex:
            solos = list(ex.map(solo, lines + fixtures))
        bad = 0
        for ci, case in enumerate(cases):
            gens, vals = {}, {}
            for rec in solos[ci]:
                vals.setdefault((rec.get("validate"), rec.get("panic")), []).append("alone")
            for r, o in enumerate(outs):
                recs = [x for x in o if x.get("id") == case["id"]]
                if not recs:
                    vals.setdefault("<missing>", []).append(r)
                for rec in recs:
                    vals.setdefault((rec.get("validate"), rec.get("panic")), []).append(r)
                    if r % 2 == 0:
                        gens.setdefault(rec.get("generate"), []).append(r)
            if len(vals) > 1 or len(gens) > 1:
                bad += 1
                what = "report" if len(vals) > 1 else "generated Rego"
                hist = "in fresh processes running the same calls in the same order" if len(gens) > 1 else "depending on what else the process handled before (alone / fixed history / permuted histories)"
                ctx.violation(f"C06:nondeterministic-{what.split()[0]}", f"{max(len(vals), len(gens))} different {what}s for the same profile/data/configuration/clock {hist} (case {case['id']})",
                              {"case": case, "distinct_reports": [{"hash": str(k2), "runs": v} for k2, v in vals.items()], "distinct_generated": [{"hash": str(k2), "runs": v} for k2, v in gens.items()]})
        ctx.coverage.setdefault("streams", {})["fresh-processes"] = {"cases": len(cases), "processes": runs, "generated": len(lines), "fixtures": len(fixtures)}
        ctx.coverage["evaluations"] = len(cases) * runs
        ctx.coverage["distinct_nontrivial"] = len(cases)
        ctx.samples.append({"stream": "fresh-processes", "profile_head": cases[0]["profile"][:400]})
        ctx.oblige("search:byte-identical generated code and reports across fresh processes", bad == 0)
        # any degree of concurrency: the same calls from many goroutines, byte-compared with their serial results
        cbad, ccalls = 0, 0
        crounds = 6 if ctx.quick() else 60
        for r in range(crounds):
            gor = [2, 4, 8, 16, 32, 64][r % 6]
            p = run_private_tmp([ACVH, "racestress", str(ctx.seed * 100 + 50 + r), str(gor), "8"], dict(os.environ))
            out = None
            for l in p.stdout.split("\n"):
                if l.startswith("{"):
                    out = json.loads(l)
            if out is not None and out.get("outcome") == "blocked":
                cbad += 1
                ctx.violation("C06:calls-never-returned", f"{len(out.get('stuck') or [])} of {gor} goroutines were still inside a call {out.get('after_s')} s after the start: {(out.get('stuck') or [])[:4]}", {"round": r, "goroutines": gor, "summary": out})
            elif out is None or out.get("outcome") != "ok":
                cbad += 1
                ctx.violation("C06:concurrent-run-failed", f"concurrent run did not finish: rc={p.returncode} {p.stderr[-300:]}", {"round": r, "goroutines": gor, "stderr_tail": p.stderr[-1500:]})
                continue
            ccalls += out["calls"]
            if out["mismatches"]:
                cbad += 1
                ctx.violation("C06:concurrent-report-differs", f"{gor} goroutines: {out['mismatches'][0]} ({len(out['mismatches'])} of {out['calls']} calls differ)",
                              {"round": r, "goroutines": gor, "seed": ctx.seed * 100 + 50 + r, "summary": out, "replay_cmd": f"acvh racestress {ctx.seed * 100 + 50 + r} {gor} 8"})
        ctx.coverage["streams"]["concurrent"] = {"rounds": crounds, "calls": ccalls, "goroutines": "2..64"}
        ctx.coverage["evaluations"] += ccalls
        ctx.oblige("search:reports under 2..64 concurrent goroutines byte-equal to their serial counterparts", cbad == 0)
    except Broken as b:
        broken.append(b)
    ctx.coverage["rule"] = ("profiles with 2..8 nested/atLeast/atMost constraints under one propertyConstraints map (several constraint keys per property, several prefixes), and repository fixtures; "
                            "the same profile and data under six report configurations that share some fields; each generated and validated (fixed clock) alone in a process of its own and in N fresh processes (fixed and permuted histories); all hashes must coincide. Concurrency: 6 (quick) / 60 (thorough) rounds of 2..64 goroutines x 8 calls mixing all entry points over 6 profiles, each result byte-compared with the serial one (C10 repeats this under the race detector).")
    ctx.assumptions += ["determinism of OPA (set ordering), json-gold, yaml.v3 and encoding/json (sorted map keys) is a dependency property: observed only",
                        "every range over a Go map in the library is one of the four inventoried sites (theorem sites_expected over the regenerated inventory)"]
    return conclude(ctx, broken, trusted=TRUST_COMMON + ["go/packages-based inventory extractor"])


# ------------------------------------------------------------------ C08

C08_THEOREMS = ["Acv.C08.forbidden_denied", "Acv.C08.denied_exist", "Acv.C08.forbidden_exist", "Acv.C08.single_compile_site",
                "Acv.C08.deny_list_rejects_at_any_depth", "Acv.C08.old_list_misses_lookup",
                "Acv.C08Term.denied_call_rejected", "Acv.C08Term.denied_with_binding_rejected", "Acv.C08Term.denied_use_found", "Acv.C08Term.accept_iff", "Acv.C08Term.contexts_reach_every_occurrence"]


def cmp_c08(case, i, m):
    if "error" in m:
        return ("~model-error", "model driver rejected the case: " + m["error"])
    where = f"{case['builtin']} at position {case['position']} ({case['syntax']})"
    if case.get("via"):
        where += f" through {'Validate' if case['via'] == 'validate' else 'ValidateWithConfiguration under report configuration ' + json.dumps(case.get('rc'))}"
    if i.get("outcome") == "panic":
        return ("panic", f"{where}: CompileProfile panicked: {str(i.get('err'))[:150]}")
    if case.get("flaw"):
        # a second defect in the same module: whichever the compiler reports, the profile must not be accepted
        if i.get("outcome") == "accepted":
            how = "bound to another function by a `with` modifier (never called by name)" if case["flaw"] == "with-modifier" else f"in a module that also has the flaw `{case['flaw']}`"
            return ("forbidden-accepted:" + case["builtin"], f"{where} {how}: the profile was ACCEPTED")
        return None
    if m["forbidden"] and not i.get("unsafeRejected"):
        return ("forbidden-accepted:" + case["builtin"], f"{where}: the profile was {'ACCEPTED' if i.get('outcome') == 'accepted' else 'rejected for another reason: ' + str(i.get('err'))[:120]} - a forbidden built-in must be rejected by the deny-list")
    if bool(i.get("unsafeRejected")) != m["denied"]:
        return ("~deny-list-mismatch:" + case["builtin"], f"{where}: rejected-as-unsafe={i.get('unsafeRejected')} but on the regenerated deny-list={m['denied']}")
    return None


def check_C08(ctx):
    broken = []
    try:
        build_harness()
        run_extract()
    except Broken as b:
        return conclude(ctx, [b])
    broken += prove(ctx, "Acv.Props.C08", C08_THEOREMS)
    try:
        full = not ctx.quick()
        lines, impl, model = corr(ctx, "c08", 2 if full else 1, cmp_c08)
        st = ctx.coverage["streams"]["c08"]
        st["builtins"] = len({json.loads(l)["builtin"] for l in lines})
        st["accepted"] = sum(1 for i in impl if i.get("outcome") == "accepted")
        st["rejected_unsafe"] = sum(1 for i in impl if i.get("unsafeRejected"))
        st["rejected_other"] = sum(1 for i in impl if i.get("outcome") == "rejected" and not i.get("unsafeRejected"))
        ctx.coverage["exhaustive"] = full
        ctx.coverage["distinct_nontrivial"] = st["rejected_unsafe"]
        ctx.oblige("correspondence:built-in x embedding position x call syntax compile matrix (rejected as unsafe iff on the deny-list; every forbidden built-in rejected everywhere)", not ctx.violations)
    except Broken as b:
        broken.append(b)
    ctx.coverage["rule"] = ("every built-in registered in the linked engine (thorough: all; quick: the 5 forbidden ones everywhere + a 6% sample of the rest) x 24 embedding positions (rego, regoModule, code/message form, not, and, or, if, then, else, second of two native constraints, rego + regoModule on one property, one of many native alternatives, after a comment line, "
                            "path-level rego, nested, atLeast, helper function in rego_extensions called from a rule, helper never called) x 4 call syntaxes (assignment, inside a comprehension, as argument of another call, bare statement); "
                            "for the forbidden ones also `with <function> as <built-in>` bindings (to a built-in and to a rego_extensions helper of the same arity) and modules with a second defect (keywords used as names, syntax/type errors, unknown functions, unsafe variables, unterminated strings); type-correct sample arguments from the built-in's declaration; for the forbidden ones the profile is also handed to Validate and to ValidateWithConfiguration under several report configurations (an error must come back); otherwise only CompileProfile is called, so nothing is evaluated")
    ctx.assumptions += ["the engine's capability check (rego.UnsafeBuiltins) is a dependency: modelled at term level (C08Term), tied by the matrix", "js/validator.go (WASM entry, build-constrained) calls the same internal pipeline and is not loaded by the inventory"]
    return conclude(ctx, broken, trusted=TRUST_COMMON + ["go/packages-based inventory of engine API calls"])


# ------------------------------------------------------------------ C07

C07_THEOREMS = ["Acv.C07.letters_ok", "Acv.C07.var_names_distinct", "Acv.C07.var_not_keyword", "Acv.C07.plural_not_keyword",
                "Acv.C07.plural_not_var", "Acv.C07.plural_format", "Acv.C07.genvar_injective", "Acv.C07.packageName_valid",
                "Acv.C07.old_table_collides", "Acv.C02.bindings_distinct"]


def cmp_c07(case, i, m):
    if i.get("outcome") == "ok":
        return None
    if i.get("outcome") == "timeout":
        return False    # the engine did not answer within the harness's time limit: not evaluated (OPA's compile time grows ~3.7x per nesting level)
    return ("compile:" + case["kind"], f"well-formed declarative profile ({case['kind']}, size {case['size']}) does not compile: {i.get('outcome')}: {str(i.get('err'))[:300]}")


C07_LEVEL_THEOREMS = ["Acv.C07Levels.source_readable", "Acv.C07Levels.levels_table", "Acv.C07Levels.level_names_fresh",
                      "Acv.C07Levels.levels_defined", "Acv.C07Levels.default_iff_empty", "Acv.C07Levels.never_default_and_rule",
                      "Acv.C07Levels.defaults_nodup", "Acv.C07Levels.rules_per_level", "Acv.C07Levels.rego_rules_per_level",
                      "Acv.C07Levels.dedup_leaves_level_undefined", "Acv.C07Levels.zero_branches_leave_level_undefined",
                      "Acv.C07Levels.proper_rules_levels_defined"]


def check_C07(ctx):
    broken = []
    try:
        build_harness()
        run_extract()
    except Broken as b:
        return conclude(ctx, [b])
    broken += prove(ctx, "Acv.Props.C07", C07_THEOREMS)
    # the level names the preamble's report rules read are defined (rule or default, never both), over the table regenerated from
    # ruleSet / preamble / preambleRaw / wrapTopLevelRegoResult and the parser's level lists
    broken += prove(ctx, "Acv.Props.C07Levels", C07_LEVEL_THEOREMS)
    try:
        extra = () if ctx.quick() else ("full",)
        lines = gen_cases("c07", 40 if ctx.quick() else 1500, ctx.seed * 1000 + 11, extra)
        impl = run_impl(lines)
        kinds = {}
        bad = 0
        for line, i in zip(lines, impl):
            case = json.loads(line)
            k = case["kind"].split(":")[0]
            kinds[k] = kinds.get(k, 0) + 1
            r = cmp_c07(case, i, None)
            if r:
                bad += 1
                ctx.violation("C07:" + r[0] + ":" + str(i.get("err"))[:60], r[1], {"case": case, "impl": i})
        ctx.coverage.setdefault("streams", {})["c07"] = {"cases": len(lines), "by_kind": kinds}
        ctx.coverage["evaluations"] = len(lines)
        ctx.coverage["distinct_nontrivial"] = len(lines)
        ctx.samples.append({"stream": "c07", "case": {k: json.loads(lines[0])[k] for k in ("kind", "size")}, "impl": impl[0]})
        ctx.oblige("search:scaling matrix (constraint kinds x path shapes, width, depth, number of validations, random formulas, profile names) compiles", bad == 0)
    except Broken as b:
        broken.append(b)
    ctx.coverage["rule"] = ("every constraint kind (22) x 17 path shapes (incl. custom annotation steps, direct and inverse, in every position), plain/negated/nested; 1..40 (thorough 1..60) quantified constraints in one validation; nesting depth 1..8 (thorough ..10; the engine's compile time grows about 3.7x per level: 4 s at depth 8, 58 s at depth 10, so deeper profiles are not explored); 1..30 (..100) validations; "
                            "random formulas of the full language; profile names that must sanitise into a package name; pkg.CompileProfile must succeed")
    ctx.assumptions += ["that the engine accepts the REST of the emitted code (safety, types) is not modelled: only the names the translator invents and the three level names (defined by a rule or a default, never both: C07Levels) are covered by theorems; the matrix is the search for a failing profile",
                        "C07Levels.levels_defined assumes every validation has at least one failure branch (proved for rules without empty and/or bodies); a validation with none (`and: []`, `propertyConstraints: {}`) alone in its level leaves the level undefined: zero_branches_leave_level_undefined"]
    return conclude(ctx, broken, trusted=TRUST_COMMON + ["extractors of the letter list, the plural format and the linked engine's keyword table", "extractor of the level structure (ruleSet, preamble, the report rules of preambleRaw, the head line of wrapTopLevelRegoResult, the parser's level lists)"])


# ------------------------------------------------------------------ C05

C05_THEOREMS = ["Acv.C05.norm_ser", "Acv.C05.norm_ser_flat", "Acv.C05.exists_WF", "Acv.C05.reserialisation_invariant",
                "Acv.C05.norm_reflects", "Acv.C05.equiv_iff", "Acv.C05.equiv_targets", "Acv.C05.norm_wellFormed",
                "Acv.C05.canonIndex_wellFormed", "Acv.C05.find_get_iff", "Acv.C05.find_types_iff", "Acv.C05.reserialisation_same_reads"]


C05_CONTEXT_THEOREMS = ["Acv.C05.expand_spelling", "Acv.C05.expand_spelling_obj", "Acv.C05.norm_ser_ctx", "Acv.C05.norm_ser_ctx_doc",
                        "Acv.C05.expand_spelling₀", "Acv.C05.norm_ser_ctx₀", "Acv.C05.renderings_agree", "Acv.C05.reserialisation_invariant_ctx",
                        "Acv.C05.normC_ser", "Acv.C05.normC_eq_norm_arr", "Acv.C05.normC_eq_norm_obj", "Acv.C05.normC_wellFormed"]


def _canon_message_lists(verdicts):
    """verdicts with every bracketed list inside a result message sorted: equal iff the results differ only in the ORDER in which
    a message lists the values of a multi-valued property"""
    def canon(r):
        return re.sub(r"\[([^\[\]]*)\]", lambda m: "[" + ", ".join(sorted(m.group(1).split(", "))) + "]", r)
    out = []
    for v in verdicts:
        if isinstance(v, dict):
            out.append({"conforms": v.get("conforms"), "results": sorted(canon(r) for r in v.get("results", []))})
        else:
            out.append(v)
    return out


def check_C05(ctx):
    broken = []
    try:
        build_harness()
    except Broken as b:
        return conclude(ctx, [b])
    broken += prove(ctx, "Acv.Props.C05", C05_THEOREMS)
    broken += prove(ctx, "Acv.Props.C05Context", C05_CONTEXT_THEOREMS)
    broken += prove(ctx, "Acv.Props.C05Message", ["Acv.C05.quoted_values_same_set", "Acv.C05.quoted_single_value_invariant_partial", "Acv.C05.quoted_values_order_sensitive"])
    try:
        lines = gen_cases("c05", 60 if ctx.quick() else 500, ctx.seed * 1000 + 21)
        impl = run_impl(lines)
        model = run_model(lines)
        forms, bad, ndocs, frag = {}, 0, 0, 0
        skipped_cases = 0
        for line, i, m in zip(lines, impl, model):
            case = json.loads(line)
            if "error" not in m and i.get("outcome") == "timeout":
                skipped_cases += 1   # the machine was too busy to finish the case: not evaluated (counted in the evidence)
                continue
            if "error" in m or i.get("outcome") != "ok":
                bad += 1
                ctx.violation("C05:harness", f"case could not run: {m.get('error')} {i.get('outcome')}", {"case": case, "impl": i, "model": m})
                continue
            base = i["docs"][0]
            for k, (d, di, dm) in enumerate(zip(case["docs"], i["docs"], m["docs"])):
                ndocs += 1
                forms[d["form"]] = forms.get(d["form"], 0) + 1
                desc = None
                if di["outcome"] != "ok":
                    desc = ("rejected", f"serialisation `{d['form']}` of a graph is not accepted: {di['outcome'][:150]}")
                elif any(a != b for a, b in zip(di["verdicts"], base["verdicts"]) if a != "timeout" and b != "timeout"):   # an evaluation that ran out of time was not evaluated
                    desc = ("verdict", f"serialisation `{d['form']}` gives different results than the flat document for the same graph")
                    if not any(a != b for a, b in zip(_canon_message_lists(di["verdicts"]), _canon_message_lists(base["verdicts"])) if a != "timeout" and b != "timeout"):
                        # same results up to the order in which a message lists the values of a multi-valued property
                        # (a listed known finding: printed as KNOWN-FINDING, recorded in the evidence, not counted against the obligation)
                        nv = len(ctx.violations)
                        ctx.violation("C05:message-value-order", f"serialisation `{d['form']}`: a result message lists the values of a multi-valued property in document order, so it differs from the flat document's",
                                      {"graph": case["graph"], "doc": d, "flat": case["docs"][0], "impl": di, "impl_flat": base, "profiles": case["profiles"]})
                        bad += len(ctx.violations) - nv
                        continue
                elif di["index"] != base["index"]:
                    desc = ("index", f"serialisation `{d['form']}` normalises to a different index than the flat document for the same graph")
                elif not dm.get("skipped"):
                    frag += 1
                    if dm.get("outcome") != "ok" and not d.get("fragment", True):
                        frag -= 1    # a form the model does not cover (e.g. @included): verdict and index equality with the flat form only
                    elif dm.get("outcome") != "ok":
                        desc = ("model-outside-fragment", f"normalisation model rejects a `{d['form']}` document of the fragment: {dm.get('outcome')}")
                    elif dm["index"] != di["index"]:
                        desc = ("model-vs-real", f"normalisation model and real Index(Normalize(.)) differ on a `{d['form']}` document")
                    elif not dm["equivCanon"] or dm["index"] != m["canon"]:
                        desc = ("model-self", "norm(ser g c) is not the canonical index of the graph (norm_ser contradicted?)")
                if desc:
                    bad += 1
                    payload = {"graph": case["graph"], "doc": d, "flat": case["docs"][0], "impl": di, "impl_flat": base, "model": dm, "profiles": case["profiles"]}
                    if desc[0].startswith("model-"):
                        ctx.brk("C05:" + desc[0] + ":" + d["form"], desc[1], payload)
                    else:
                        ctx.violation("C05:" + desc[0] + ":" + d["form"], desc[1], payload)
        ctx.coverage.setdefault("streams", {})["c05"] = {"graphs": len(lines), "documents": ndocs, "in_model_fragment": frag, "forms": forms, "cases_not_evaluated_for_time": skipped_cases}
        ctx.coverage["evaluations"] = ndocs
        ctx.coverage["distinct_nontrivial"] = ndocs - len(lines)
        c0 = json.loads(lines[0])
        ctx.samples.append({"stream": "c05", "docs": [{"form": d["form"], "text": d["text"][:300]} for d in c0["docs"][:3]]})
        ctx.oblige("correspondence:real Index(Normalize(doc)) = norm model = canonical index of the graph, on flat / embedded / split / @graph / single-object serialisations; metamorphic verdict equality incl. @context/@base documents", bad == 0)
    except Broken as b:
        broken.append(b)
    ctx.coverage["rule"] = ("random graphs (2..7 nodes, links incl. cycles and dangling refs, literals) each serialised 5 ways: flat, permuted with {@value}/bare/repeated values and string-or-array @type, embedded to depth 4 with nodes split across occurrences (twice), "
                            "and with an @context (prefix-compacted IRIs, @base-relative ids, @vocab-relative keys and classes, local names that are also built-in prefix names); top-level array / @graph / single object; whitespace; 2 random profiles + 1 uniqueValues profile per graph. Checked: index equality with the flat form, verdict equality, and for EVERY document equality of the real index with the Lean model (normC) and with the graph's canonical index")
    ctx.assumptions += ["json-gold outside the modelled fragment (@context/@base handling, @list, language maps, @reverse, blank nodes, remote contexts) is not modelled: @context documents are covered by the metamorphic comparison only; the rest is not claimed"]
    return conclude(ctx, broken, trusted=TRUST_COMMON)


# ------------------------------------------------------------------ C15

C15_THEOREMS = ["Acv.C15.expand_rename", "Acv.C15.expand_total_on_grammar", "Acv.C15.expand_reserved",
                "Acv.C01.and_operand_order", "Acv.C01.or_operand_order", "Acv.C01.spelling_independent",
                "Acv.C03.severity_is_level", "Acv.C06.insertAll_perm", "Acv.C07.var_names_distinct"]


PARSER_THEOREMS = ["Acv.ProfileParser.profile_key_tags", "Acv.ProfileParser.validation_key_tags", "Acv.ProfileParser.expression_key_tags", "Acv.ProfileParser.validation_key_order_tags",
                   "Acv.ProfileParser.get_is_first_match", "Acv.ProfileParser.get_eq_some_iff", "Acv.ProfileParser.get_eq_none_iff", "Acv.ProfileParser.get_perm",
                   "Acv.ProfileParser.validation_key_order", "Acv.ProfileParser.expression_key_order_deep", "Acv.ProfileParser.expression_key_order",
                   "Acv.ProfileParser.key_order_under", "Acv.ProfileParser.key_order_under_connective",
                   "Acv.ProfileParser.precedence", "Acv.ProfileParser.precedence_propertyConstraints", "Acv.ProfileParser.precedence_rego", "Acv.ProfileParser.precedence_regoModule",
                   "Acv.ProfileParser.precedence_and", "Acv.ProfileParser.precedence_or", "Acv.ProfileParser.precedence_not", "Acv.ProfileParser.precedence_if",
                   "Acv.ProfileParser.no_known_key_is_error", "Acv.ProfileParser.if_without_then_is_error",
                   "Acv.ProfileParser.pev_fresh", "Acv.ProfileParser.variables_fresh", "Acv.ProfileParser.pev_boundVars_nodup",
                   "Acv.ProfileParser.negate_negate", "Acv.ProfileParser.negate_no_negated_connective", "Acv.ProfileParser.parseExpression_no_negated_connective",
                   "Acv.ProfileParser.not_a_map_is_error", "Acv.ProfileParser.missing_validations_is_error", "Acv.ProfileParser.missing_profile_name_is_error",
                   "Acv.ProfileParser.undefined_names_skipped", "Acv.ProfileParser.only_undefined_names", "Acv.ProfileParser.level_not_a_list",
                   "Acv.ProfileParser.fuel_never_exhausted", "Acv.ProfileParser.parseProfile_fuel_irrelevant"]


def cmp_parse(case, i, m):
    """the hand-written model of the profile parser (Acv/Model/ProfileParser.lean) against the real parser, on the YAML node tree
    yaml.v3 produced for the text: same outcome (parsed / rejected; the error text is not modelled), same parsed structure (rules, variables, negation flags, levels, prefixes)"""
    if "error" in m and "outcome" not in m:
        return ("~model-error", "model driver rejected the case: " + m["error"])
    if i.get("outcome") == "panic":
        return ("~parser-panic", f"the real profile parser panicked on {case['profile'][:120]!r}: {str(i.get('err'))[:160]}")
    if m["outcome"] == "unsupported":
        return False      # a !!float argument: strconv.ParseFloat / %f are not modelled
    if case.get("tree") is None:
        return None if i.get("outcome") == "error" else ("~parse", "no YAML tree for the text, yet the real parser did not reject it")
    if m["outcome"] != i.get("outcome"):
        return ("~parse", f"{case['kind']} profile {case['profile'][:160]!r}: real parser {i.get('outcome')} ({str(i.get('err'))[:120]}), parser model {m['outcome']} ({str(m.get('err'))[:120]})")
    if m["outcome"] == "ok" and m.get("dump") != i.get("dump"):
        return ("~parse", f"{case['kind']} profile {case['profile'][:200]!r}: the parsed structure differs from the parser model's")
    return None


def cmp_c15(case, i, m):
    if "error" in m:
        return ("~model-error", "model driver rejected the case: " + m["error"])
    for k, what in (("a", "canonical spelling"), ("b", "reordered/restyled spelling"), ("c", "spelling with renamed and mixed prefixes")):
        if i[k].get("outcome") == "timeout":
            return False
        if i[k].get("outcome") != "ok":
            return ("rewrite-rejected:" + k, f"{what} of the profile: {i[k].get('outcome')}: {str(i[k].get('err'))[:200]}")
    for k, what in (("b", "reordering keys/operands/level lists, YAML style, comments"), ("c", "renaming the prefix / using several prefixes for one namespace")):
        if i[k]["results"] != i["a"]["results"] or i[k]["conforms"] != i["a"]["conforms"]:
            only_a = sorted(set(i["a"]["results"]) - set(i[k]["results"]))[:3]
            only_k = sorted(set(i[k]["results"]) - set(i["a"]["results"]))[:3]
            return ("rewrite-changes-verdict:" + k, f"{what} changed the results: only before {only_a}, only after {only_k}")
    if i["a"]["pairs"] != m["implReported"]:
        return ("~correspondence", "real verdicts differ from the translator model")
    if case["stream"] == "graphcount" and i["a"]["pairs"] != m["reported"]:
        return ("verdict", "real verdicts differ from 'target and not formula'")
    return None


def check_C15(ctx):
    broken = []
    try:
        build_harness()
        run_extract()
    except Broken as b:
        return conclude(ctx, [b])
    broken += prove(ctx, "Acv.Props.C15", C15_THEOREMS)
    broken += prove(ctx, "Acv.Props.ProfileParser", PARSER_THEOREMS)
    try:
        corr(ctx, "c15", 150 if ctx.quick() else 4000, cmp_c15)
        ctx.oblige("correspondence:meaning-preserving rewrites of the YAML text give the same results (and the model's)", not ctx.violations)
    except Broken as b:
        broken.append(b)
    try:
        nb = len(ctx.breaks) if hasattr(ctx, "breaks") else 0
        corr(ctx, "parse", 300 if ctx.quick() else 6000, cmp_parse)
        ctx.oblige("correspondence:real profile parser vs the parser model (accepted or rejected, parsed structure) on fixtures, generated, mutated, conflicting-key and hostile profiles",
                   (len(ctx.breaks) if hasattr(ctx, "breaks") else 0) == nb)
    except Broken as b:
        broken.append(b)
    ctx.coverage["rule"] = ("random profiles of the full declarative language; spelling A canonical; spelling B: every mapping (top level, prefixes, validations, propertyConstraints, constraint keys, if/then/else, count/validation), "
                            "level list and and/or operand list shuffled, conjunctions merged into one propertyConstraints map, block/flow style, plain/single/double quoting, comments, blank lines, indentation 2 or 4; "
                            "spelling C: additionally every compact IRI uses one of three prefixes (incl. `_` and `-`) bound to the same namespace, datatypes (incl. the sized integer types) go through a second alias of the XML Schema namespace; "
                            "in a quarter of the cases the validation names are texts YAML reads as a number, boolean, null or date when a KEY is written plain (keys plain or quoted at random, list VALUES always quoted); strings as plain, single- and double-quoted (a tab as escape or as itself), literal and folded block scalars with and without a final line break; a second expression keyword next to propertyConstraints, which the parser ignores wherever it stands; "
                            "results are compared with their messages; all on the same graph. "
                            "Parser stream: the repository's fixture profiles, generated profiles, their structural mutations (duplicated and conflicting keys, wrongly typed values), and hostile texts; the real parser's dump (verif hook DumpProfile) against the parser model run on yaml.v3's node tree")
    ctx.assumptions += ["yaml.v3 maps the style variants to the same node tree (kind, tag, value): dependency, observed only"]
    return conclude(ctx, broken, trusted=TRUST_COMMON)


# ------------------------------------------------------------------ replay

REPLAY_CMP = {"parse": cmp_parse, "c01": cmp_c01, "c02": cmp_c02, "c03": cmp_c03, "c13": cmp_c13, "c14": cmp_c14, "c15": cmp_c15, "c16": cmp_c16, "c08": cmp_c08,
              "c07": cmp_c07, "fuzz": cmp_fuzz, "hist": cmp_hist, "ms": cmp_ms}


def replay(ctx, path):
    """re-run the case stored in a replay file against the CURRENT /repo and say whether it still fails"""
    rec = json.load(open(path))
    case = rec.get("case")
    if not isinstance(case, dict) or "op" not in case:
        log("replay file holds no single re-runnable case (obligation/correspondence break or aggregated run); re-run the check instead:")
        log(f"  bin/check {ctx.pid}")
        print(f"VIOLATION property={ctx.pid} replay={path} no-failing-input-found")
        return 1
    build_harness()
    if ctx.pid in ("C04", "C09", "C11", "C17", "C08", "C06", "C10", "C18", "C07", "C15", "C16"):
        try:
            run_extract()
        except Broken:
            pass
    lake_build(["acvdriver"])
    line = json.dumps(case)
    i = run_impl([line], jobs=1)[0]
    op = case["op"]
    if op == "pipe":
        m = run_model([line], jobs=1)[0]
        problems = pipe_property_checks(ctx.pid, case, i)
        r = cmp_pipe(case, i, m)
        if problems:
            print(f"VIOLATION property={ctx.pid} replay={path}")
            log("  still fails: " + problems[0][1])
            return 1
        if r:
            print(f"VIOLATION property={ctx.pid} replay={path} no-failing-input-found")
            log("  correspondence still differs: " + r[1])
            return 1
        log("  the case passes now")
        return 0
    cmpf = REPLAY_CMP.get(op)
    if cmpf is None:
        log(f"no single-case replay for op {op}; re-run bin/check {ctx.pid}")
        return 2
    m = run_model([line], jobs=1)[0] if op not in ("fuzz", "hist", "c07") else None
    r = cmpf(case, i, m)
    if r and r is not True:
        sig, desc = r
        tail = " no-failing-input-found" if sig.startswith("~") else ""
        print(f"VIOLATION property={ctx.pid} replay={path}{tail}")
        log("  still fails: " + desc)
        return 1
    log("  the case passes now")
    return 0
