"""per-property checks"""
import json, os, sys, time
from runner import *

TRUST_COMMON = [
    "Lean 4.33.0 kernel; axioms propext, Classical.choice, Quot.sound only",
    "harness translator/generators (/verif/harness, Go) and this orchestrator's comparison",
    "OPA v0.47 evaluation of the generated Rego, json-gold v0.4.0, yaml.v3, encoding/json: modelled, tied by differential runs only",
]


def setup():
    build_harness()
    try:
        run_extract()
    except Broken as b:
        log("extract:", b.what, b.detail)
    lake_build([])
    log("setup ok")


def prove(ctx, module, theorems, extra_targets=()):
    """build the property module and audit its theorems; returns list of Broken"""
    broken = []
    try:
        audit_sources()
        lake_build([module, "acvdriver"] + list(extra_targets))
        ax = audit_axioms(module, theorems)
        for t in theorems:
            ctx.oblige(t, True)
        if not ctx.quick():
            leanchecker([module])
            ctx.oblige("leanchecker:" + module, True)
    except Broken as b:
        for t in theorems:
            if t not in [n for n, _ in ctx.obligations]:
                ctx.oblige(t, False)
        broken.append(b)
    return broken


def conclude(ctx, broken, **kw):
    """a broken obligation with no concrete failing input is still a violation"""
    if broken and not ctx.violations and not ctx.known_hits:
        for b in broken:
            ctx.violation("broken:" + b.what + ":" + b.detail[:200],
                          f"{b.what} no longer checks", {"broken": b.what, "detail": b.detail},
                          found_input=False)
    elif broken:
        for b in broken:
            log(f"  also broken: {b.what}: {b.detail[:300]}")
    return ctx.finish(**kw)


def corr(ctx, prop, n, compare, seed_offset=0, extra=(), label=None):
    """generate n cases, run impl and model, compare(case, impl, model) -> None | (sig, desc)"""
    label = label or prop
    lines = gen_cases(prop, n, ctx.seed * 1000 + seed_offset, extra)
    t0 = time.time()
    impl = run_impl(lines)
    t1 = time.time()
    model = run_model(lines)
    t2 = time.time()
    stats = {"cases": len(lines), "impl_s": round(t1 - t0, 1), "model_s": round(t2 - t1, 1)}
    distinct = set()
    nontrivial = 0
    for line, i, m in zip(lines, impl, model):
        case = json.loads(line)
        r = compare(case, i, m)
        key = json.dumps({k: v for k, v in case.items() if k not in ("id", "profile", "data")}, sort_keys=True)
        if key not in distinct:
            distinct.add(key)
            if r is not False and nontrivial_case(case, i, m):
                nontrivial += 1
        if r and r is not True:
            sig, desc = r
            ctx.violation(f"{label}:{sig}", desc, {"case": case, "impl": i, "model": m})
    ctx.coverage.setdefault("streams", {})[label] = dict(stats, distinct=len(distinct), nontrivial=nontrivial)
    ctx.coverage["evaluations"] = ctx.coverage.get("evaluations", 0) + len(lines)
    ctx.coverage["distinct_nontrivial"] = ctx.coverage.get("distinct_nontrivial", 0) + nontrivial
    if lines and len(ctx.samples) < 6:
        c = json.loads(lines[0])
        ctx.samples.append({"stream": label, "case": {k: c[k] for k in c if k not in ("graph", "data")},
                            "impl": impl[0], "model": model[0]})
    return lines, impl, model


def nontrivial_case(case, i, m):
    if case.get("op") == "c02":
        return len(m.get("values", [])) > 0
    if case.get("op") == "c01":
        return len(m.get("reported", [])) > 0
    return True


# ------------------------------------------------------------------ C02

C02_THEOREMS = ["Acv.C02.clauses_denote", "Acv.C02.count_is_card", "Acv.C02.alt_is_union",
                "Acv.C02.seq_is_composition", "Acv.C02.inverse_is_converse",
                "Acv.C02.bindings_distinct"]


def cmp_c02(case, i, m):
    if "error" in m:
        return ("model-error", "model driver rejected the case: " + m["error"])
    if i.get("outcome") != "ok":
        return ("impl-" + str(i.get("outcome")), f"path `{case['pathText']}`: real code gave {i.get('outcome')}: {str(i.get('err'))[:200]}")
    if m["values"] != m["implValues"] or m["count"] != m["implCount"]:
        return ("model-self", "clauses model and denotation disagree (theorem clauses_denote contradicted?)")
    if i["values"] != m["values"]:
        return ("values", f"path `{case['pathText']}` from {case['focus']}: code reaches {i['values']} but the denotation is {m['values']}")
    if i["count"] != m["count"]:
        return ("count", f"path `{case['pathText']}`: code counts {i['count']} values, denotation has {m['count']}")
    return None


def check_C02(ctx):
    broken = []
    try:
        build_harness()
    except Broken as b:
        return conclude(ctx, [b])
    broken += prove(ctx, "Acv.Props.C02", C02_THEOREMS)
    try:
        n = 400 if ctx.quick() else 12000
        corr(ctx, "c02", n, cmp_c02)
        ctx.oblige("correspondence:c02 path values real-vs-model", not ctx.violations)
    except Broken as b:
        broken.append(b)
    ctx.coverage["rule"] = ("random paths of the documented grammar (depth<=4, / | ^ @type, parentheses) x random graphs "
                            "(2..7 nodes, links incl. cycles, shared children, dangling links, literals mid-path); a case is non-trivial when the path reaches >=1 value")
    ctx.assumptions += ["Rego evaluation of nested_nodes/search_subjects/nodes_array (OPA) is modelled by stepItems"]
    return conclude(ctx, broken, trusted=TRUST_COMMON)


# ------------------------------------------------------------------ C01

C01_THEOREMS = ["Acv.C01.compile_correct", "Acv.C01.dispatch_nonempty", "Acv.C01.spelling_independent",
                "Acv.C01.and_operand_order", "Acv.C01.or_operand_order", "Acv.C01.and_flatten", "Acv.C01.or_flatten",
                "Acv.C01.double_negation", "Acv.C01.de_morgan_and", "Acv.C01.de_morgan_or", "Acv.C01.contraposition",
                "Acv.C01.ite_as_implications", "Acv.C01.cond_as_or", "Acv.C01.nested_is_forall",
                "Acv.C01.atLeast_counts", "Acv.C01.atMost_counts", "Acv.C01.graphEnv_classical",
                "Acv.C01.reported_iff", "Acv.C01.old_negated_ite_wrong", "Acv.C01.improper_misjudged"]


def cmp_c01(case, i, m):
    if "error" in m:
        return ("model-error", "model driver rejected the case: " + m["error"])
    if i.get("outcome") == "timeout":
        return False    # too slow to evaluate; not counted
    if i.get("outcome") != "ok":
        return ("impl-" + str(i.get("outcome")), f"declarative profile: real code gave {i.get('outcome')}: {str(i.get('err'))[:300]}")
    real = i["reported"]
    classical = case["stream"] in ("tt", "graphcount")
    if classical and m["reported"] != m["implReported"]:
        return ("model-self", "DNF model and classical meaning disagree on a classical case (compile_correct contradicted?)")
    if classical and real != m["reported"]:
        extra = sorted(set(real) - set(m["reported"]))[:4]
        missing = sorted(set(m["reported"]) - set(real))[:4]
        return ("verdict", f"{case['stream']}: reported set differs from 'target and not formula': wrongly reported {extra}, not reported {missing}")
    if real != m["implReported"]:
        extra = sorted(set(real) - set(m["implReported"]))[:4]
        missing = sorted(set(m["implReported"]) - set(real))[:4]
        return ("correspondence", f"{case['stream']}: real verdicts differ from the translator model: only real {extra}, only model {missing}")
    return None


def check_C01(ctx):
    broken = []
    try:
        build_harness()
    except Broken as b:
        return conclude(ctx, [b])
    broken += prove(ctx, "Acv.Props.C01", C01_THEOREMS)
    q = ctx.quick()
    plan = [("tt", 260 if q else 6000), ("graphcount", 120 if q else 3000), ("atoms", 120 if q else 3000), ("graph", 100 if q else 3000)]
    try:
        for k, (stream, n) in enumerate(plan):
            before = len(ctx.violations)
            corr(ctx, "c01", n, cmp_c01, seed_offset=k, extra=(stream,), label="c01/" + stream)
            ctx.oblige(f"correspondence:c01/{stream}", len(ctx.violations) == before)
    except Broken as b:
        broken.append(b)
    ctx.coverage["rule"] = ("tt: random formulas (and/or/not/if/then/else, depth<=6, width<=4) over k<=5 classical atoms, graph = one target node per truth assignment (whole truth table per validation); "
                            "graphcount: random graphs, cardinality atoms over random paths, nested/atLeast/atMost/exactly; atoms: every atom kind alone and negated; graph: all atom kinds mixed. "
                            "non-trivial = at least one node reported")
    ctx.assumptions += ["per-atom Rego snippets are modelled by Atom.fails (tied by the atoms stream)",
                        "per-value atoms (in, pattern, lengths, numeric, datatype, property comparisons) are classical only on single-valued properties; on other graphs the check compares with the literal translator model (stream graph)"]
    return conclude(ctx, broken, trusted=TRUST_COMMON)
