"""greedy minimiser for c01 / c02 replay cases: shrinks the ABSTRACT case (rule trees, paths, graph), re-renders the
texts with `acvh render`, and keeps a reduction while the same kind of difference persists"""
import copy, json, subprocess
from runner import ACVH, run_impl, run_model


def render(case):
    p = subprocess.run([ACVH, "render"], input=json.dumps(case) + "\n", capture_output=True, text=True, timeout=120)
    return json.loads(p.stdout.split("\n")[0])


def _graph_reductions(case):
    g = case["graph"]
    for k in range(len(g)):
        if case.get("focus") == g[k]["id"]:
            continue
        c = copy.deepcopy(case); del c["graph"][k]; yield c
    for k, n in enumerate(g):
        for j in range(len(n["props"])):
            c = copy.deepcopy(case); del c["graph"][k]["props"][j]; yield c
        for j, p in enumerate(n["props"]):
            if len(p[1]) > 1:
                for v in range(len(p[1])):
                    c = copy.deepcopy(case); del c["graph"][k]["props"][j][1][v]; yield c
        if len(n["types"]) > 1:
            for t in range(len(n["types"])):
                if n["types"][t].endswith("#F"):
                    continue
                c = copy.deepcopy(case); del c["graph"][k]["types"][t]; yield c


def _path_reductions(p):
    """yield smaller paths"""
    for key in ("seq", "alt"):
        if p.get(key):
            items = p[key]
            for it in items:
                yield it
            if len(items) > 2:
                for k in range(len(items)):
                    q = dict(p); q[key] = items[:k] + items[k + 1:]; yield q
            for k, it in enumerate(items):
                for r in _path_reductions(it):
                    q = dict(p); q[key] = items[:k] + [r] + items[k + 1:]; yield q


def _rule_reductions(r):
    for key in ("and", "or"):
        if r.get(key):
            items = r[key]
            for it in items:
                yield it
            if len(items) > 2:
                for k in range(len(items)):
                    q = dict(r); q[key] = items[:k] + items[k + 1:]; yield q
            for k, it in enumerate(items):
                for s in _rule_reductions(it):
                    q = dict(r); q[key] = items[:k] + [s] + items[k + 1:]; yield q
    if r.get("not") is not None:
        yield r["not"]
        for s in _rule_reductions(r["not"]):
            q = dict(r); q["not"] = s; yield q
    if r.get("if") is not None:
        for key in ("if", "then", "else"):
            if r.get(key) is not None:
                yield r[key]
                for s in _rule_reductions(r[key]):
                    q = dict(r); q[key] = s; yield q
        if r.get("else") is not None:
            q = dict(r); del q["else"]; yield q
    if r.get("nested") is not None:
        for s in _rule_reductions(r["nested"]):
            q = dict(r); q["nested"] = s; yield q


def reductions(case):
    yield from _graph_reductions(case)
    if case["op"] == "c02":
        for q in _path_reductions(case["path"]):
            c = copy.deepcopy(case); c["path"] = q; yield c
    if case["op"] == "c01":
        vs = case["validations"]
        if len(vs) > 1:
            for k in range(len(vs)):
                c = copy.deepcopy(case); del c["validations"][k]; yield c
        for k, v in enumerate(vs):
            for s in _rule_reductions(v["rule"]):
                c = copy.deepcopy(case); c["validations"][k]["rule"] = s; yield c


def minimise(case, cmp, budget=160):
    """returns (minimised case, impl, model, evaluations)"""
    def fails(c):
        try:
            c = render(c)
            line = json.dumps(c)
            i = run_impl([line], jobs=1)[0]
            m = run_model([line], jobs=1)[0]
            r = cmp(c, i, m)
            return (c, i, m) if (r and r is not True and not r[0].startswith("~")) else None
        except Exception:
            return None
    best = fails(case)
    if best is None:
        return None
    used = 1
    progress = True
    while progress and used < budget:
        progress = False
        for cand in reductions(best[0]):
            if used >= budget:
                break
            used += 1
            res = fails(cand)
            if res is not None:
                best = res
                progress = True
                break
    return best + (used,)
