"""canonical view of the traces of a report (real) and of the trace model's answer (driver op c12t), and their comparison.
Written by the sub-agent that built Acv/Model/Trace.lean (see the header of Acv/Driver/TraceOp.lean for the rendering):
  per (sourceShapeName, focusNode): multiset of results; result = sorted entries; entry = [component, resultPath] or
  [component, resultPath, multiset of [focusNode, result]] for nested / quantified literals.
Claimed level ("exact"): per pair the SET of canonical top-level results is the same, sub-results compared as multisets."""
import collections

QUANT = {"nested", "atLeast", "atMost", "exactly", "exactlyOrMore", "exactlyOrLess", "distinctFrom"}


def ms(items):
    """multiset of hashable canonical items -> sorted tuple of (item, count)"""
    c = collections.Counter(items)
    return tuple(sorted(c.items()))


# ---- real report -> canonical
def real_result(r):
    return tuple(sorted(real_entry(t) for t in r.get("trace", [])))


def real_entry(t):
    tv = t.get("traceValue", {})
    c, p = t.get("component"), t.get("resultPath")
    if isinstance(tv, dict) and "subResult" in tv:
        subs = tv["subResult"] or []
        return (c, p, ms([(s.get("focusNode"), real_result(s)) for s in subs]))
    return (c, p)


def real_canon(report):
    enc = report[0]["doc:encodes"][0]
    out = collections.defaultdict(list)
    for r in enc.get("result", []) or []:
        out[(r["sourceShapeName"], r["focusNode"])].append(real_result(r))
    return {k: ms(v) for k, v in out.items()}


def real_checks(report):
    """the literal content of C12's last sentence on the real report: returns list of complaints"""
    bad = []
    def chk(r, top, where):
        if not r.get("focusNode"): bad.append(where + ": no focus")
        if not r.get("resultMessage"): bad.append(where + ": empty message")
        if not top and r.get("sourceShapeName") != "nested": bad.append(where + ": sub-result shape " + str(r.get("sourceShapeName")))
        tr = r.get("trace")
        if not tr: bad.append(where + ": empty trace")
        for i, t in enumerate(tr or []):
            if not t.get("component"): bad.append(where + f": trace {i} no component")
            if not t.get("resultPath"): bad.append(where + f": trace {i} no path")
            tv = t.get("traceValue", {})
            if isinstance(tv, dict):
                for j, s in enumerate(tv.get("subResult") or []):
                    chk(s, False, where + f"/{i}.{j}")
    for i, r in enumerate(report[0]["doc:encodes"][0].get("result", []) or []):
        chk(r, True, f"result {i}")
    return bad


# ---- model answer -> canonical
def model_result(R):
    return tuple(sorted(model_entry(e) for e in R))


def model_entry(e):
    if len(e) == 3:
        return (e[0], e[1], ms_counts([((x[0], model_result(x[1])), c) for c, x in e[2]]))
    return (e[0], e[1])


def ms_counts(pairs):
    c = collections.Counter()
    for item, n in pairs:
        c[item] += n
    return tuple(sorted(c.items()))


def model_canon(ans):
    out = {}
    for k, MS in ans["results"].items():
        name, _, focus = k.rpartition("|")   # node ids contain no `|`, validation names may
        out[(name, focus)] = ms_counts([(model_result(R), c) for c, R in MS])
    return out


# ---- set-level view (multiplicities dropped, recursively)
def as_set_result(R):
    return tuple(sorted(set(as_set_entry(e) for e in R)))


def as_set_entry(e):
    if len(e) == 3:
        return (e[0], e[1], tuple(sorted(set((f, as_set_result(r)) for (f, r), _ in e[2]))))
    return e


def as_set(MS):
    return tuple(sorted(set(as_set_result(R) for R, _ in MS)))


def components(R, acc):
    for e in R:
        acc.add(e[0])
        if len(e) == 3:
            for (f, r), _ in e[2]:
                components(r, acc)
    return acc




def trace_difference(real_report, model_answer):
    """None if the real report's traces are what the trace model predicts (level `exact`), else a description"""
    rc, mc = real_canon(real_report), model_canon(model_answer)
    if set(rc) != set(mc):
        return f"(validation, focus) pairs differ: only real {sorted(set(rc) - set(mc))[:3]}, only model {sorted(set(mc) - set(rc))[:3]}"
    for k in sorted(rc):
        r, m = rc[k], mc[k]
        if r != m and set(x for x, _ in r) != set(x for x, _ in m):
            rs, msx = dict(r), dict(m)
            for R in sorted(set(rs) | set(msx)):
                if (R in rs) != (R in msx):
                    return f"results of {k[0]} on {k[1]}: a result with trace {str(R)[:300]} is {'only in the real report' if R in rs else 'only predicted by the model'}"
    return None


def unnamed_paths(real_report, model_answer):
    """C12's last clause on the real report, with the model saying which entries HAVE a path to name: a description of a
    real trace entry (at any depth) whose resultPath is empty although every entry the model predicts for that component
    under the same (validation, focus) pair names a path; None otherwise"""
    rc, mc = real_canon(real_report), model_canon(model_answer)
    def entries(R, acc):
        for e in R:
            acc.append((e[0], e[1]))
            if len(e) == 3:
                for (f, r), _ in e[2]:
                    entries(r, acc)
        return acc
    for k in sorted(rc):
        real_e, model_e = [], []
        for R, _ in rc[k]:
            entries(R, real_e)
        for R, _ in mc.get(k, ()):
            entries(R, model_e)
        for comp, path in real_e:
            if not path:
                named = [p for c, p in model_e if c == comp]
                if named and all(named):
                    return f"result of {k[0]} on {k[1]}: the trace entry of `{comp}` has an empty resultPath (the failed path is {named[0]!r})"
        # a component that no constraint of the failing branches has
        foreign = sorted(set(c for c, _ in real_e) - set(c for c, _ in model_e))
        if foreign and model_e:
            return f"result of {k[0]} on {k[1]}: the trace names the component(s) {foreign[:2]}, but the constraints that can fail there are {sorted(set(c for c, _ in model_e))[:4]}"
        # the same components on both sides, but an entry names another path than the constraint's
        if sorted(c for c, _ in real_e) == sorted(c for c, _ in model_e):
            for comp in sorted(set(c for c, _ in real_e)):
                rp, mp = sorted(set(p for c, p in real_e if c == comp)), sorted(set(p for c, p in model_e if c == comp))
                if rp != mp:
                    return f"result of {k[0]} on {k[1]}: the trace entries of `{comp}` name the path(s) {[p for p in rp if p not in mp][:2]}, but the failed constraint's path is {[p for p in mp if p not in rp][:2]}"
    return None
